"""C04 - A damaged stream yields an intact prefix, never altered records."""
from __future__ import annotations

import ast
import struct

from ..cfg import CFG
from ..core import ordkey
from ..core import AnalysisError, NotConst, call_name, calls_in, dotted, enclosing_function, expr_conditions, func_params, norm, qualname_of, walk_no_nested

PROPERTY = "C04"
EXPLANATION = (
    "Decides the structural half of 'intact prefix, never altered records': (R4.1) RecordStreamReader.__iter__ is a generator "
    "that yields each record in the loop iteration that read it (no accumulation, no read-ahead); (R4.2) on the path from "
    "reading a frame to yielding it the only exception that is swallowed is EOFError, its handler lies outside the frame loop "
    "(reading stops, nothing is skipped or resynchronised), the only explicit `raise EOFError` is the short-length-prefix "
    "test, and no broad handler / contextlib.suppress exists in stream.py, adapter/stream.py, packer.py on that path; (R4.3) "
    "the prefix is read with exactly calcsize bytes and tested with len != n, so a stream ending at a frame boundary ends "
    "cleanly; (R4.4) the writer builds the complete frame body before it writes anything and writes prefix then body with "
    "nothing in between; (R4.5) the bytes handed to the decoder are the fresh result of one read(size) of the decoded length "
    "(not a reused buffer whose tail can hold an earlier frame). NOT decided: that msgpack rejects every truncated body and "
    "that gzip/bz2/lz4/zstd readers (and any buffering layer around them) fail rather than lose or invent data on truncated "
    "input; every-cut-position enumeration."
    " Also decided (rules added after the fifth blind round): (R4.6, package-wide) an io.Buffered*/TextIOWrapper layer is put only around an object that lacks peek() or is opened right there as a plain file - never around an object that can be a gzip/bz2/lz4 reader."
    " Rules added after the sixth blind round: (R4.9 = R3.3 of C03, writer handler) the descriptor handler writes its frame at once - no queue that survives a failed write."
)
RULE_SUMMARY = "instances: yields, handlers, raise sites, read/write call sites of the frame loop; non-trivial = path/dominance/def-use computed"


def run(ctx):
    prog = ctx.prog
    stream_m = prog.module("flow.record.stream")
    ctx.use(stream_m, prog.module("flow.record.packer"), prog.module("flow.record.adapter.stream"))
    ctx.trust("msgpack.unpackb raises on a truncated or trailing-garbage body; decompressors raise (EOFError/OSError) on truncated input")
    it = ctx.anchor_func("flow.record.stream.RecordStreamReader.__iter__")
    rd = ctx.anchor_func("flow.record.stream.RecordStreamReader.read")
    wr = ctx.anchor_func("flow.record.stream.RecordStreamWriter.write")
    cfg = CFG(it)

    # ------------------------------------------------------------------ R4.1
    ctx.rule("R4.1", "__iter__ is a generator; every record is yielded in the iteration that read it; nothing is collected for later")
    yields = [n for n in walk_no_nested(it) if isinstance(n, (ast.Yield, ast.YieldFrom))]
    ctx.floor("R4.1", "yield expressions in RecordStreamReader.__iter__", len(yields), 1)
    loops = [n for n in walk_no_nested(it) if isinstance(n, (ast.While, ast.For))]
    reads = [c for c in calls_in(it) if norm(c.func) == "self.read"]
    ctx.floor("R4.1", "frame reads in __iter__", len(reads), 1)
    if not loops:
        ctx.fail("R4.1", "__iter__:loop", "no frame loop", it, key="R4.1:no-loop")
        raise AnalysisError("R4.1: frame loop not found")
    loop = loops[0]
    for y in yields:
        inside = any(y in list(ast.walk(s0)) for s0 in loop.body)
        val = y.value
        # the yielded value is the object read in this iteration
        read_vars = {norm(st.targets[0]) for st in ast.walk(loop) if isinstance(st, ast.Assign) and isinstance(st.value, ast.Call) and norm(st.value.func) == "self.read"}
        same = val is not None and norm(val) in read_vars
        ctx.check(inside and same and isinstance(y, ast.Yield), "R4.1", "__iter__:yield", "a record is not yielded from inside the frame loop as the object just read "
                  f"(yields {norm(val) if val is not None else None})", y, f"yield {norm(val)} inside the loop that read it", key="R4.1:__iter__:yield-not-immediate")
    accum = [c for c in calls_in(it) if isinstance(c.func, ast.Attribute) and c.func.attr in ("append", "extend", "add", "appendleft", "put")]
    ctx.check(not accum, "R4.1", "__iter__:no-accumulation", f"records are collected ({norm(accum[0]) if accum else ''}) instead of being yielded as they are read: a later damaged "
              "frame loses the intact prefix", accum[0] if accum else it, "no container accumulation", key="R4.1:__iter__:accumulates")
    rets = [n for n in walk_no_nested(it) if isinstance(n, ast.Return) and n.value is not None]
    ctx.check(not rets, "R4.1", "__iter__:no-return-value", "returns a value instead of yielding", it, "generator")
    # one read per iteration, before the yield
    per_iter = [c for c in reads if any(c in list(ast.walk(s0)) for s0 in loop.body)]
    ctx.check(len(per_iter) == 1, "R4.1", "__iter__:single-read-per-iteration", f"{len(per_iter)} frame reads per iteration (read-ahead / skipping)", loop, "one read per iteration")

    # ------------------------------------------------------------------ R4.2
    ctx.rule("R4.2", "only EOFError is swallowed, by a handler outside the frame loop; no handler inside the loop; the only `raise EOFError` is the short-prefix test; "
                     "no broad except / suppress in the stream modules' read path")
    tries = [n for n in walk_no_nested(it) if isinstance(n, ast.Try)]
    for t in tries:
        in_loop = any(t in list(ast.walk(s0)) for s0 in loop.body)
        for h in t.handlers:
            names = [None] if h.type is None else [dotted(e) for e in (h.type.elts if isinstance(h.type, ast.Tuple) else [h.type])]
            swallows = not any(isinstance(n, ast.Raise) for n in ast.walk(h))
            construct = f"__iter__:except {names}"
            if in_loop and swallows:
                ctx.fail("R4.2", construct, "an exception handler inside the frame loop swallows errors and lets the loop continue: a damaged frame is skipped and "
                         "reading resynchronises onto whatever follows", h, key=f"R4.2:__iter__:handler-inside-loop:{names}")
            elif swallows:
                ctx.check(names == ["EOFError"], "R4.2", construct, f"the frame loop swallows {names}: decode errors of a damaged frame end the iteration silently "
                          "or hide corruption", h, "only EOFError ends the iteration", key=f"R4.2:__iter__:swallows:{names}")
                covers_loop = loop in list(ast.walk(ast.Module(body=t.body, type_ignores=[])))
                ctx.check(covers_loop, "R4.2", construct + ":outside-loop", "the EOFError handler does not enclose the loop", h, "handler encloses the whole loop")
                resumes = [n for n in ast.walk(h) if isinstance(n, (ast.Continue, ast.Yield, ast.YieldFrom)) or (isinstance(n, ast.Call) and norm(n.func) == "self.read")]
                ctx.check(not resumes, "R4.2", construct + ":stops", "the handler resumes reading / yields", h, "handler ends the iteration")
    ctx.floor("R4.2", "try statements in __iter__", len(tries), 1)
    eofs = []
    for fn in (it, rd):
        for r in walk_no_nested(fn):
            if isinstance(r, ast.Raise) and r.exc is not None and (dotted(r.exc.func) if isinstance(r.exc, ast.Call) else dotted(r.exc)) == "EOFError":
                eofs.append((fn, r))
    ctx.check(len(eofs) == 1 and eofs[0][0] is rd, "R4.2", "read:raise-EOFError", f"{len(eofs)} explicit `raise EOFError` sites", rd, "single site (short length prefix)")
    for m in ("flow.record.stream", "flow.record.adapter.stream", "flow.record.packer"):
        mod = prog.module(m)
        for cls_fn in [n for n in ast.walk(mod.tree) if isinstance(n, ast.FunctionDef) and n.name in ("read", "__iter__", "unpack", "unpack_obj", "readheader", "__init__")]:
            owner = getattr(cls_fn, "_parent", None)
            if not (isinstance(owner, ast.ClassDef) and owner.name in ("RecordStreamReader", "StreamReader", "RecordPacker")):
                continue
            for t in [n for n in ast.walk(cls_fn) if isinstance(n, ast.Try)]:
                for h in t.handlers:
                    names = [None] if h.type is None else [dotted(e) for e in (h.type.elts if isinstance(h.type, ast.Tuple) else [h.type])]
                    broad = any(n in (None, "Exception", "BaseException") for n in names)
                    swallows = not any(isinstance(n, ast.Raise) for n in ast.walk(h))
                    ctx.check(not (broad and swallows), "R4.2", f"{owner.name}.{cls_fn.name}:broad-except", "a broad exception handler swallows decode errors on the read path",
                              h, "no broad swallowing handler", key=f"R4.2:{owner.name}.{cls_fn.name}:broad-except")
            sup = [c for c in calls_in(cls_fn, nested=True) if call_name(c) in ("contextlib.suppress", "suppress")]
            ctx.check(not sup, "R4.2", f"{owner.name}.{cls_fn.name}:suppress", "contextlib.suppress on the read path", cls_fn, "no suppress")

    # ------------------------------------------------------------------ R4.3 / R4.5
    ctx.rule("R4.3", "the length prefix is read with calcsize(format) bytes and rejected with EOFError when len(d) != that size")
    ctx.rule("R4.5", "the decoder receives the fresh result of fp.read(size) where size is the decoded length; no persistent buffer, no unchecked readinto")
    from .frame_common import assigned_from, struct_sites

    usites = struct_sites(prog, rd, "unpack")
    if not usites:
        raise AnalysisError("R4.3: length-prefix unpack site not found in read()")
    ucall, fmt, udata = usites[0]
    ups = [ucall]
    n = struct.calcsize(fmt)
    rcfg = CFG(rd)
    pvar = norm(udata[0])
    prefix_read = None
    for st in walk_no_nested(rd):
        if isinstance(st, ast.Assign) and norm(st.targets[0]) == pvar and isinstance(st.value, ast.Call) and isinstance(st.value.func, ast.Attribute) \
                and st.value.func.attr == "read" and ordkey(st) <= ordkey(ucall):
            prefix_read = st
            break
    ok = prefix_read is not None and _fold(prog, stream_m, prefix_read.value.args[0]) == n
    ctx.check(ok, "R4.3", "read:prefix-size", f"prefix read does not request {n} bytes", rd, f"fp.read({n})")
    # a prefix that is not exactly n bytes long must end in EOFError before anything is unpacked: explore read() from the prefix read
    # under the assumption len(prefix) != n (shorter)
    from .. import logic as _lg

    def short_valuation(atom):
        try:
            e = ast.parse(atom, mode="eval").body
        except SyntaxError:
            return None
        if isinstance(e, ast.Compare) and len(e.ops) == 1:
            l, r = e.left, e.comparators[0]
            for a, b, flip in ((l, r, False), (r, l, True)):
                if norm(a) == f"len({pvar})" and _fold(prog, stream_m, b) == n:
                    op = type(e.ops[0])
                    if op is ast.Eq:
                        return False
                    if op is ast.Lt:
                        return not flip  # len(d) < n  is true for a short prefix;  n < len(d)  is false
                    if op is ast.Gt:
                        return flip
        if norm(e) == pvar:
            return None
        return None

    good = False
    why = "a short length prefix is not turned into EOFError by `len(d) != size`"
    if prefix_read is not None:
        start = rcfg.node_of(prefix_read).id
        reach = set()
        for v, _ in rcfg.succ[start]:
            reach |= _lg.reachable_assuming(rcfg, v, short_valuation)
        unpack_reached = rcfg.node_of(ups[0]).id in reach
        normal_exit = rcfg.exit in reach
        raises = [rcfg.nodes[i].ast for i in reach if rcfg.nodes[i].ast is not None and isinstance(rcfg.nodes[i].ast, ast.Raise)]
        eof_only = bool(raises) and all(r.exc is not None and norm(r.exc.func if isinstance(r.exc, ast.Call) else r.exc) == "EOFError" for r in raises)
        good = not unpack_reached and not normal_exit and eof_only
        if unpack_reached:
            why = "the prefix is unpacked although fewer than the required bytes were read (a stream ending inside the prefix is not a clean end)"
        elif not eof_only:
            why = "a short length prefix does not raise EOFError (the reader's loop ends cleanly only on EOFError)"
    ctx.check(good, "R4.3", "read:short-prefix-test", why, rd, f"len({pvar}) != {n} -> raise EOFError, before the prefix is unpacked", key="R4.3:read:short-prefix-test")
    # body read and hand-over to the decoder
    decs = [c for c in calls_in(rd) if isinstance(c.func, ast.Attribute) and c.func.attr == "unpack" and "packer" in norm(c.func.value)]
    if not decs:
        raise AnalysisError("R4.5: self.packer.unpack(...) not found in read()")
    arg = decs[0].args[0]
    size_var = assigned_from(rd, ucall)
    construct = "read:body"
    def is_size(e):
        # the size decoded from the prefix: the variable that received it, or the decoding written in place
        if size_var is not None and norm(e) == size_var:
            return True
        return isinstance(e, ast.Subscript) and e.value is ucall and isinstance(e.slice, ast.Constant) and e.slice.value == 0

    def is_fresh_read(v):
        return isinstance(v, ast.Call) and isinstance(v.func, ast.Attribute) and v.func.attr == "read" and norm(v.func.value) == "self.fp" and len(v.args) == 1 and is_size(v.args[0]) and not v.keywords

    if isinstance(arg, ast.Name):
        rdefs = rcfg.reaching_defs(arg.id)[rcfg.node_of(decs[0]).id]
        reaching = [rcfg.nodes[i].ast for i in rdefs if rcfg.nodes[i].ast is not None]
        values = [st.value if isinstance(st, ast.Assign) and len(st.targets) == 1 and isinstance(st.targets[0], ast.Name) else None for st in reaching]
        shown = [norm(r)[:60] for r in reaching]
    else:
        values = [arg]  # the read is written in the argument position itself
        shown = [norm(arg)[:60]]
    fresh = bool(values) and all(is_fresh_read(v) for v in values)
    ctx.check(fresh, "R4.5", construct, f"the object handed to the decoder is defined by {shown}, not by `self.fp.read(<decoded size>)`: with a "
              "reused buffer or an unchecked readinto a short read leaves bytes of an earlier frame in place and a record that was never completely "
              "written can be decoded", decs[0], "self.packer.unpack(self.fp.read(<decoded size>))", key="R4.5:read:body-not-fresh-read")
    readinto = [c for c in calls_in(rd) if isinstance(c.func, ast.Attribute) and c.func.attr in ("readinto", "readinto1", "recv_into")]
    ctx.check(not readinto, "R4.5", "read:no-readinto", "readinto() fills a caller-owned buffer; its return value (bytes actually read) is not compared with the frame size",
              readinto[0] if readinto else rd, "no readinto", key="R4.5:read:readinto")
    self_bufs = [n for n in ast.walk(rd) if isinstance(n, ast.Attribute) and isinstance(n.ctx, ast.Store) and norm(n.value) == "self"]
    ctx.check(not self_bufs, "R4.5", "read:no-persistent-state", f"read() keeps state across frames ({norm(self_bufs[0]) if self_bufs else ''})", rd, "read() is stateless")

    # ------------------------------------------------------------------ R4.4 writer
    ctx.rule("R4.4", "writer: the body is completely built (pack) before the first write; prefix then body, nothing in between")
    wcfg = CFG(wr)
    packs = [c for c in calls_in(wr) if norm(c.func) == "self.packer.pack"]
    fpw = [c for c in calls_in(wr) if isinstance(c.func, ast.Attribute) and c.func.attr == "write" and norm(c.func.value) == "self.fp"]
    ctx.floor("R4.4", "fp.write sites in RecordStreamWriter.write", len(fpw), 1)
    if packs:
        pn = wcfg.node_of(packs[0]).id
        ctx.check(all((wcfg.dominates(pn, wcfg.node_of(w).id) and pn != wcfg.node_of(w).id) or (len(fpw) == 1 and any(packs[0] in list(ast.walk(a)) for a in w.args))
                      for w in fpw), "R4.4", "write:pack-before-write",
                  "part of the frame can be written before the body has been built: a failing pack leaves a partial frame", wr, "pack dominates every write")
    else:
        ctx.fail("R4.4", "write:pack", "pack() call not found", wr, key="R4.4:write:no-pack")
    if len(fpw) == 2:
        a, b = sorted(fpw, key=ordkey)
        from ..core import single_assign_aliases

        psites = [c0 for c0, _, _ in struct_sites(prog, wr, "pack")]
        wal = single_assign_aliases(wr)
        first_is_prefix = any(x in psites for x in ast.walk(a)) or any(
            isinstance(x, ast.Name) and x.id in wal and any(y in psites for y in ast.walk(wal[x.id])) for x in ast.walk(a))
        na, nb = wcfg.node_of(a), wcfg.node_of(b)
        between = [n for n in wcfg.stmt_nodes() if n.id not in (na.id, nb.id) and n.id in wcfg.reachable(na.id) and nb.id in wcfg.reachable(n.id)
                   and any(isinstance(x, ast.Call) for x in ast.walk(n.ast))]
        ctx.check(first_is_prefix and not between, "R4.4", "write:prefix-then-body", "the frame is not written as prefix immediately followed by body", wr, "prefix, body")
    elif len(fpw) == 1:
        ctx.ok("R4.4", "write:single-write", "frame written with one write call", wr)
    else:
        ctx.fail("R4.4", "write:frame-writes", f"{len(fpw)} write calls per frame", wr, key="R4.4:write:frame-writes")


    # ------------------------------------------------------------------ R4.7 a failing write is never swallowed on the write path
    ctx.rule("R4.7", "no handler on the write path (writer, descriptor notification, packer) catches OSError/Exception without re-raising: a failed or short write must surface, "
                     "otherwise later frames follow a frame that is not on disk")
    path_fns = ["flow.record.stream.RecordStreamWriter.write", "flow.record.stream.RecordStreamWriter.on_descriptor", "flow.record.stream.RecordStreamWriter.writeheader",
                "flow.record.stream.RecordStreamWriter.__write", "flow.record.utils.EventHandler.__call__", "flow.record.packer.RecordPacker.register",
                "flow.record.packer.RecordPacker.pack", "flow.record.packer.RecordPacker.pack_obj"]
    n_fn = 0
    for qn in path_fns:
        try:
            f0 = prog.func(qn)
        except AnalysisError:
            continue
        n_fn += 1
        ctx.use(f0._module)
        for tr in [n for n in ast.walk(f0) if isinstance(n, ast.Try)]:
            for h in tr.handlers:
                names = [norm(x) for x in (h.type.elts if isinstance(h.type, ast.Tuple) else [h.type])] if h.type is not None else ["BaseException"]
                broad = [nm for nm in names if nm.split(".")[-1] in ("BaseException", "Exception", "OSError", "IOError", "EnvironmentError")]
                if not broad:
                    continue

                def _reraises(stmts):
                    if not stmts:
                        return False
                    last = stmts[-1]
                    if isinstance(last, ast.Raise):
                        return True
                    if isinstance(last, ast.If) and last.orelse:
                        return _reraises(last.body) and _reraises(last.orelse)
                    return False

                ctx.check(_reraises(h.body), "R4.7", f"{qn.replace('flow.record.', '')}:except {broad[0]}", f"`except {', '.join(names)}` on the write path does not re-raise: an I/O error while "
                          "writing a frame (e.g. the descriptor frame) is swallowed and the following frames are written after a hole", h, "handler re-raises",
                          key=f"R4.7:{qn.replace('flow.record.', '')}:swallows:{broad[0]}")
    ctx.floor("R4.7", "write-path functions inspected", n_fn, 6)
    ctx.ok("R4.7", "write-path:handlers", f"{n_fn} write-path functions inspected", None)

    # ------------------------------------------------------------------ R4.8 a record whose descriptor frame was lost fails, it is not decoded with a namesake
    from .c03 import check_lookup_by_identifier

    check_lookup_by_identifier(ctx, "R4.8")

    # ------------------------------------------------------------------ R4.6 no buffering layer over a raising decompressor
    ctx.rule("R4.6", "read-mode gzip/bz2/lz4 decompressors are handed to the frame reader directly: an io.Buffered*/TextIOWrapper layer "
                     "around them fills its buffer with one large readinto(), and when the decompressor raises EOFError at a truncated end "
                     "that call discards the data it had already decoded - complete frames near the end are lost")
    ctx.trust("gzip.GzipFile / bz2.BZ2File / lz4.frame readers raise EOFError from read/readinto at a truncated end (library behaviour)")
    base = prog.module("flow.record.base")
    ctx.use(base)
    RAISING = ("gzip.GzipFile", "gzip.open", "bz2.BZ2File", "bz2.open", "lz4.frame.open", "lz4.frame.LZ4FrameFile")
    WRAPPERS = ("io.BufferedReader", "io.BufferedRandom", "io.TextIOWrapper", "io.BufferedRWPair")
    sites = 0
    for q in ("flow.record.base.open_stream", "flow.record.base.open_path"):
        fn = ctx.anchor_func(q)
        wrapped_names = set()
        for c in calls_in(fn):
            r = prog.resolve_expr(base, c.func)
            rn = getattr(r, "name", None)
            if rn in RAISING:
                sites += 1
                par = getattr(c, "_parent", None)
                outer = None
                while par is not None and not isinstance(par, ast.stmt):
                    if isinstance(par, ast.Call):
                        pr = prog.resolve_expr(base, par.func)
                        if getattr(pr, "name", None) in WRAPPERS:
                            outer = par
                    par = getattr(par, "_parent", None)
                # later re-wrapping of the variable that holds the decompressor
                tgt = None
                st = par
                if isinstance(st, ast.Assign) and isinstance(st.targets[0], ast.Name):
                    tgt = st.targets[0].id
                rewrap = None
                if tgt:
                    for c2 in calls_in(fn):
                        pr = prog.resolve_expr(base, c2.func)
                        if getattr(pr, "name", None) in WRAPPERS and any(isinstance(a, ast.Name) and a.id == tgt for a in c2.args) and ordkey(c2) > ordkey(c):
                            # only a violation if it is reachable after the decompressor assignment without re-testing for `peek`
                            fcfg = CFG(fn)
                            facts = {(t, pol) for t, pol, _ in fcfg.facts_at(fcfg.node_of(c2).id)}
                            if not any("hasattr" in t for t, pol in facts) and fcfg.node_of(c2).id in fcfg.reachable(fcfg.node_of(c).id):
                                rewrap = c2
                ctx.check(outer is None and rewrap is None, "R4.6", f"{fn.name}:{rn}", f"the {rn} reader is wrapped in {norm((outer or rewrap).func) if (outer or rewrap) else ''}: "
                          "on a truncated file the wrapper's buffer fill is aborted by the decompressor's EOFError and already-decoded frames are dropped",
                          outer or rewrap or c, "decompressor is used directly", key=f"R4.6:{fn.name}:{rn}:buffered-wrapper")
    ctx.floor("R4.6", "read-mode decompressor construction sites", sites, 4)
    # the same layer added anywhere else on the way to the frame reader: a buffering wrapper may only go around an object that
    # cannot be one of those decompressors - it lacks `peek` (they all have it) or it is opened right there as a plain file
    from .. import logic
    wrappers = 0
    for m in prog.modules.values():
        for c in calls_in(m.tree, nested=True):
            r = prog.resolve_expr(m, c.func)
            if getattr(r, "name", None) not in WRAPPERS or not c.args:
                continue
            fn = enclosing_function(c)
            if fn is None or prog.in_transparent_helper(c):
                continue
            wrappers += 1
            arg = c.args[0]
            ra = prog.resolve_expr(m, arg.func) if isinstance(arg, ast.Call) else None
            plain = getattr(ra, "name", None) in ("builtins.open", "io.open", "io.BytesIO", "io.FileIO", "os.fdopen")
            fcfg = CFG(fn)
            node = fcfg.header_node_for_expr(c) or fcfg.node_of(c)
            prem = logic.facts_as_premises(fcfg.facts_at(node.id)) + list(expr_conditions(c))
            no_peek = logic.implies(prem, logic.parse(f"not hasattr({norm(arg)}, 'peek')"))
            where = qualname_of(fn).replace("flow.record.", "")
            ctx.check(plain or no_peek, "R4.6", f"{where}:{norm(c.func)}({norm(arg)[:30]})", f"`{norm(c)[:70]}` puts a buffering layer around an object that can be a gzip/bz2/lz4 "
                      f"reader (nothing there establishes `not hasattr({norm(arg)}, 'peek')`): on a truncated file the layer's buffer fill is aborted by the decompressor's EOFError "
                      "and complete frames that were already decoded are dropped", c, "only objects without peek() (never a raising decompressor) are wrapped",
                      key=f"R4.6:{where}:buffered-wrapper")
    ctx.floor("R4.6", "buffering wrapper constructions in the package", wrappers, 2)

    # ------------------------------------------------------------------ R4.9 (sibling rule) frames are written when they are produced
    ctx.import_rule("C03", "R3.3", "R4.9", "a failing write must not leave frames behind that a later write emits: the descriptor handler writes its frame at once (no queue that survives an exception)",
                    constructs=["RecordStreamWriter.on_new_descriptor"])



def _fold(prog, module, e):
    try:
        return prog.fold(module, e)
    except NotConst:
        return None
