"""C17 - Writers lose nothing: close, split and rotation keep every record once."""
from __future__ import annotations

import ast
import re

from ..cfg import CFG
from ..core import ordkey
from ..core import (AnalysisError, DefRef, NotConst, Ref, call_name, calls_in, dotted, enclosing_conditions, expand_aliases, func_params, get_kw,
                    norm, qualname_of, single_assign_aliases, walk_no_nested)

PROPERTY = "C17"
EXPLANATION = (
    "Decides over all writer classes: (R17.1) close() subsumes flush() - every effect flush() performs (other than flushing "
    "the very file object that close() closes) is performed by close() before it releases the resource, directly, through "
    "self.flush(), or through a delegate whose own close() satisfies the rule; (R17.2) close() is idempotent: each release is "
    "guarded by the truthiness of the resource attribute, which is cleared afterwards; (R17.3) __exit__ is flush-then-close "
    "and __del__ closes, and no subclass weakens that; (R17.4) split ordering: the record is written before the counter "
    "test, the limit test is >=, on the limit the order is flush, close, reset, open next, and the part suffix is an "
    "injective (padding-only, never truncating) function of the part number; rotation: the existing file is renamed before "
    "the same path is opened, the rename target carries a stamp taken from the clock at rotation time, and an existing "
    "target is never overwritten. Writers whose third-party dependency is not installed are analysed and reported as info. "
    "NOT decided: counts for all N mod limit, byte-wise concatenation of parts, non-monotonic timestamp histories."
    " Also decided (rules added after the fifth blind round): (R17.4) the archiver instantiates its path template with the record's own _generated value (current time only when it has none) and the record itself."
    " Rules added after the sixth blind round: (R17.5 = R18.3 of C18) transaction control only in tx_cycle; (R17.6) close() finalises unconditionally - the finalising call depends on the resource being open, never on a state flag."
    " Rules added after the seventh blind round: (R17.7 = R18.6 of C18) the SQLite reader lists every table the writer can create."
    " (R17.8 = R19.8 of C19) a second Avro container header is never written behind the first (flush() before the first record; defect F19b, fixed)."
)
RULE_SUMMARY = "instances: (writer, flush effect) pairs, release sites, __exit__/__del__ definitions, split/rotation statements"

UNCONFIRMABLE = {"flow.record.adapter.elastic", "flow.record.adapter.mongo", "flow.record.adapter.xlsx", "flow.record.adapter.splunk",
                 "flow.record.adapter.broker", "flow.record.adapter.duckdb"}
IGNORED_EFFECTS = ("hasattr", "isinstance", "log.", "logger.", "logging.", "print", "len", "bool", "getattr")


def flush_effects(prog, cls, flush_fn, close_fn):
    """Calls flush() makes that matter for durability: everything except flushing an object that close() itself closes."""
    closed = {norm(c.func.value) for c in calls_in(close_fn) if isinstance(c.func, ast.Attribute) and c.func.attr == "close"}
    out = []
    all_calls = calls_in(flush_fn)
    nested = {id(x) for c in all_calls for a in list(c.args) + [k.value for k in c.keywords] for x in ast.walk(a) if isinstance(x, ast.Call)}
    for c in all_calls:
        if id(c) in nested:
            continue  # argument of another effect call
        par = getattr(c, "_parent", None)
        if isinstance(par, ast.Assign) and par.value is c and len(par.targets) == 1 and isinstance(par.targets[0], ast.Name):
            # result held in a local that is only ever passed on as an argument of another call: same thing
            loc = par.targets[0].id
            uses = [n for n in ast.walk(flush_fn) if isinstance(n, ast.Name) and n.id == loc and isinstance(n.ctx, ast.Load)]
            arg_nodes = {id(x) for c2 in all_calls if c2 is not c for a in list(c2.args) + [k.value for k in c2.keywords] for x in ast.walk(a)}
            if uses and all(id(u) in arg_nodes for u in uses):
                continue
        f = norm(c.func)
        if any(f == x or f.startswith(x) for x in IGNORED_EFFECTS):
            continue
        if isinstance(c.func, ast.Attribute) and c.func.attr == "flush" and norm(c.func.value) in closed:
            # flushing the file object that close() closes is subsumed by closing it - unless it is a delegate writer, whose
            # flush may do more than its close (checked recursively through the delegate's own class)
            if norm(c.func.value) in ("self.fp",):
                continue
        out.append(c)
    return out


def attr_class(prog, cls, attr):
    """Class of self.<attr> if it is assigned from a constructor / factory that resolves to a package class."""
    for c in prog.mro(cls):
        if not isinstance(c, DefRef):
            continue
        for fn in prog.methods_of(c.node).values():
            for st in walk_no_nested(fn):
                if isinstance(st, ast.Assign) and any(norm(t) == f"self.{attr}" for t in st.targets) and isinstance(st.value, ast.Call):
                    r = prog.resolve_expr(c.node._module, st.value.func)
                    if isinstance(r, DefRef) and isinstance(r.node, ast.ClassDef):
                        return r.node
                    if isinstance(r, DefRef) and isinstance(r.node, ast.FunctionDef):
                        # factory: RecordOutput -> RecordPrinter | RecordStreamWriter
                        outs = []
                        for ret in walk_no_nested(r.node):
                            if isinstance(ret, ast.Return) and isinstance(ret.value, ast.Call):
                                rr = prog.resolve_expr(r.node._module, ret.value.func)
                                if isinstance(rr, DefRef) and isinstance(rr.node, ast.ClassDef):
                                    outs.append(rr.node)
                        if outs:
                            return outs
    return None


def check_split_suffix(ctx, rule: str) -> None:
    """The part suffix pads the part number and never truncates it; the counter advances once per part, after use."""
    np_ = ctx.anchor_func("flow.record.adapter.split.SplitWriter._next_path")
    # the suffix: value derived from self.file_count that is interpolated into the path
    suf = None
    from ..core import expand_aliases as _ea, single_assign_aliases as _saa
    al_np = _saa(np_)
    for st in walk_no_nested(np_):
        # (the counter may be read once into a local: the suffix is the value that derives from it and is more than a plain copy)
        copies_np = {k for k, v in al_np.items() if norm(v) == "self.file_count"}
        if isinstance(st, ast.Assign) and isinstance(st.targets[0], ast.Name) and norm(st.value) != "self.file_count" and \
                ("self.file_count" in norm(st.value) or any(isinstance(x, ast.Name) and x.id in copies_np for x in ast.walk(st.value))):
            suf = st
    if suf is None:
        raise AnalysisError(f"{rule}: suffix computation not found in _next_path")
    trunc = [n for n in ast.walk(suf.value) if isinstance(n, ast.Subscript) or (isinstance(n, ast.BinOp) and isinstance(n.op, ast.Mod) and not isinstance(n.left, ast.Constant))]
    pads = [n for n in ast.walk(suf.value) if isinstance(n, ast.Call) and isinstance(n.func, ast.Attribute) and n.func.attr in ("rjust", "zfill")] or \
        [n for n in ast.walk(suf.value) if isinstance(n, ast.FormattedValue) and n.format_spec is not None]
    ctx.check(not trunc and bool(pads), rule, "SplitWriter._next_path:suffix-injective",
              f"the part suffix `{norm(suf.value)}` truncates the part number (slice/modulo): once the number outgrows the suffix length an earlier part's name is reused and that "
              "part is overwritten", suf, "suffix pads the part number and never truncates it", key=f"{rule}:SplitWriter._next_path:suffix-truncates")
    bump = [st for st in walk_no_nested(np_) if (isinstance(st, ast.AugAssign) and norm(st.target) == "self.file_count" and isinstance(st.op, ast.Add) and norm(st.value) == "1")
            or (isinstance(st, ast.Assign) and len(st.targets) == 1 and norm(st.targets[0]) == "self.file_count" and norm(_ea(st.value, al_np)) == "self.file_count + 1")]
    ctx.check(len(bump) == 1 and ordkey(suf) < ordkey(bump[0]), rule, "SplitWriter._next_path:counter", "file_count is not advanced once per part after use", np_, "file_count += 1 after use")


def run(ctx):
    prog = ctx.prog
    aw = ctx.anchor_cls("flow.record.adapter.AbstractWriter")
    writers = prog.subclasses(aw)
    extra = [prog.cls("flow.record.stream.RecordStreamWriter"), prog.cls("flow.record.stream.RecordPrinter"), prog.cls("flow.record.stream.PathTemplateWriter")]
    ctx.floor("R17.1", "writer classes", len(writers) + len(extra), 14)
    ctx.trust("closing an io / compressor file object flushes it (library behaviour), so fp.flush() before fp.close() adds nothing")

    # ------------------------------------------------------------------ R17.1 / R17.2
    ctx.rule("R17.1", "every effect of flush() is performed by close() before the resource is released (directly, via self.flush(), or via a delegate's close that satisfies the rule)")
    ctx.rule("R17.2", "each release in close() is guarded by the truthiness of the resource attribute and the attribute is cleared, so a second close() / __del__ is a no-op")
    satisfied = {}

    def close_covers(cls, depth=0):
        """Returns list of (effect call, reason) that close() of cls omits."""
        q = qualname_of(cls)
        if q in satisfied:
            return satisfied[q]
        satisfied[q] = []
        fl = prog.class_attr(cls, "flush")
        cl = prog.class_attr(cls, "close")
        if not (isinstance(fl, DefRef) and isinstance(cl, DefRef) and isinstance(fl.node, ast.FunctionDef) and isinstance(cl.node, ast.FunctionDef)):
            return []
        flush_fn, close_fn = fl.node, cl.node
        close_calls = {norm(c.func): c for c in calls_in(close_fn)}
        if not any(isinstance(c.func, ast.Attribute) and c.func.attr == "close" for c in calls_in(close_fn)):
            return []  # close() releases nothing (RecordPrinter): the rule is about releases
        if any(norm(c.func) in ("self.flush",) for c in calls_in(close_fn)):
            # flush must come before the release
            ccfg = CFG(close_fn)
            fnode = ccfg.node_of(next(c for c in calls_in(close_fn) if norm(c.func) == "self.flush"))
            rel = [c for c in calls_in(close_fn) if isinstance(c.func, ast.Attribute) and c.func.attr == "close"]
            late = [r for r in rel if not (ccfg.dominates(fnode.id, ccfg.node_of(r).id) or _same_guarded_block(fnode, ccfg.node_of(r), ccfg))]
            omitted = [(r, "self.flush() does not precede this release") for r in late]
            satisfied[q] = omitted
            return omitted
        omitted = []
        for eff in flush_effects(prog, cls, flush_fn, close_fn):
            f = norm(eff.func)
            if f in close_calls:
                # performed; but under a stronger guard than in flush()?
                fg = {c for c in enclosing_conditions(eff, flush_fn)}
                cg = {c for c in enclosing_conditions(close_calls[f], close_fn)}
                continue
            # delegate: self.X.flush() in flush, self.X.close() in close, X's class closes properly
            if isinstance(eff.func, ast.Attribute) and eff.func.attr == "flush" and isinstance(eff.func.value, ast.Attribute) and norm(eff.func.value.value) == "self":
                attr = eff.func.value.attr
                if f"self.{attr}.close" in close_calls:
                    dcls = attr_class(prog, cls, attr)
                    dlist = dcls if isinstance(dcls, list) else ([dcls] if dcls is not None else [])
                    if dlist and depth < 3:
                        sub = []
                        for d in dlist:
                            sub += close_covers(d, depth + 1)
                        if not sub:
                            continue
                        # the delegate's close omits something: reported at the delegate
                        continue
                    if not dlist:
                        # unknown delegate (RecordWriter(...) result): any writer class -> covered by the sweep over all writers
                        continue
            omitted.append((eff, f"flush() performs `{norm(eff)[:60]}` but close() does not"))
        satisfied[q] = omitted
        return omitted

    for cls in writers + extra:
        q = qualname_of(cls)
        short = q.replace("flow.record.", "")
        ctx.use(cls._module)
        armed = cls._module.modname not in UNCONFIRMABLE
        cl = prog.class_attr(cls, "close")
        fl = prog.class_attr(cls, "flush")
        if not (isinstance(cl, DefRef) and isinstance(cl.node, ast.FunctionDef)):
            continue
        if not (isinstance(fl, DefRef) and isinstance(fl.node, ast.FunctionDef)):
            continue
        omitted = close_covers(cls)
        if qualname_of(cl.node).rsplit(".", 1)[0] != q and not omitted:
            ctx.ok("R17.1", f"{short}.close", f"inherits close() from {qualname_of(cl.node).rsplit('.', 1)[0].replace('flow.record.', '')}", cls)
            continue
        if not omitted:
            ctx.ok("R17.1", f"{short}.close", "close() performs every effect of flush() before releasing", cl.node)
        for eff, why in omitted:
            key = f"R17.1:{short}.close:omits:{norm(eff.func)}"
            msg = (f"{why}: after close() without a preceding flush() the output lacks what flush() would have written "
                   "(buffered records, or the header/empty container that makes an output without records valid)")
            if armed:
                ctx.fail("R17.1", f"{short}.close:omits:{norm(eff.func)}", msg, eff, key=key)
            else:
                ctx.info("R17.1", f"{short}.close omits {norm(eff.func)} ({why}); module dependency not installed here, not raised", eff)
        # R17.2 idempotence
        close_fn = cl.node
        if qualname_of(close_fn).rsplit(".", 1)[0] != q:
            continue
        ccfg = CFG(close_fn)
        for rel in [c for c in calls_in(close_fn) if isinstance(c.func, ast.Attribute) and c.func.attr in ("close",) and norm(c.func.value).startswith("self.")]:
            res = norm(rel.func.value)
            facts = {(t, p) for t, p, _ in ccfg.facts_at(ccfg.node_of(rel).id)}
            guarded = (res, True) in facts or (f"{res} is not None", True) in facts
            cleared = any(isinstance(st, ast.Assign) and any(norm(t) == res for t in st.targets) and isinstance(st.value, ast.Constant) and st.value.value is None
                          for st in walk_no_nested(close_fn))
            ok = guarded and cleared
            if armed:
                ctx.check(ok, "R17.2", f"{short}.close:{res}", f"{res}.close() is " + ("not guarded by the attribute's truthiness" if not guarded else "not followed by clearing the attribute") +
                          ": a second close() (or __del__) acts on a closed resource", rel, f"guarded by `{res}` and cleared", key=f"R17.2:{short}.close:{res}:not-idempotent")
            elif not ok:
                ctx.info("R17.2", f"{short}.close: {res}.close() is not idempotent; module dependency not installed here, not raised", rel)

    # ------------------------------------------------------------------ R17.3
    ctx.rule("R17.3", "AbstractWriter.__exit__ calls flush() then close() unconditionally; __del__ calls close(); subclasses do not override them otherwise")
    ex = ctx.anchor_func("flow.record.adapter.AbstractWriter.__exit__")
    calls = [norm(c.func) for c in calls_in(ex)]
    ctx.check(calls == ["self.flush", "self.close"] and not [n for n in ast.walk(ex) if isinstance(n, (ast.If, ast.Try))], "R17.3", "AbstractWriter.__exit__", f"__exit__ calls {calls}",
              ex, "flush(); close()", key="R17.3:AbstractWriter.__exit__")
    dl = ctx.anchor_func("flow.record.adapter.AbstractWriter.__del__")
    ctx.check([norm(c.func) for c in calls_in(dl)] == ["self.close"], "R17.3", "AbstractWriter.__del__", "__del__ does not just close", dl, "close()")
    for cls in writers:
        for m in ("__exit__", "__del__", "__enter__"):
            fn = prog.methods_of(cls).get(m)
            if fn is not None:
                cs = [norm(c.func) for c in calls_in(fn)]
                ok = (m == "__exit__" and cs[:2] == ["self.flush", "self.close"]) or (m == "__del__" and "self.close" in cs) or m == "__enter__"
                ctx.check(ok, "R17.3", f"{qualname_of(cls).replace('flow.record.', '')}.{m}", f"override calls {cs}", fn, "keeps flush-then-close")

    # ------------------------------------------------------------------ R17.4 split and rotation
    ctx.rule("R17.4", "SplitWriter.write: write, then count, then `>=` limit -> flush, close, reset, open next; suffix pads but never truncates the part number. "
                      "PathTemplateWriter: rotate before open; rotation renames to a name carrying a stamp read from the clock at rotation time; an existing target is not overwritten")
    sw = ctx.anchor_func("flow.record.adapter.split.SplitWriter.write")
    scfg = CFG(sw)
    wcall = next((c for c in calls_in(sw) if norm(c.func) == "self.writer.write"), None)
    from .. import logic as _lg17
    if wcall is None:
        raise AnalysisError("R17.4: SplitWriter.write structure not recognised")
    # the four effects of a rotation, found by what they do
    eff = {}
    for c in calls_in(sw):
        if norm(c.func) == "self.flush":
            eff["self.flush"] = c
        elif norm(c.func) == "self.close":
            eff["self.close"] = c
    for st in walk_no_nested(sw):
        if isinstance(st, ast.Assign) and norm(st.targets[0]) == "self.written" and isinstance(st.value, ast.Constant) and st.value.value == 0:
            eff["self.written=0"] = st
        if isinstance(st, ast.Assign) and norm(st.targets[0]) == "self.writer" and isinstance(st.value, ast.Call) and norm(st.value.func).endswith("RecordWriter"):
            eff["self.writer=RecordWriter"] = st
    want = ["self.flush", "self.close", "self.written=0", "self.writer=RecordWriter"]
    if "self.close" not in eff:
        raise AnalysisError("R17.4: SplitWriter.write structure not recognised")
    limit_if = eff["self.close"]
    cn = scfg.node_of(eff["self.close"])
    ctx.check(scfg.dominates(scfg.node_of(wcall).id, cn.id), "R17.4", "SplitWriter.write:write-before-test", "the limit is tested before the record is written", sw,
              "record written first")
    # the part is closed exactly when it is full: (a) wherever the rotation runs, written >= count holds; (b) with written >= count the method cannot end without it
    prem17 = _lg17.facts_as_premises(scfg.facts_at(cn.id))
    goal17 = _lg17.parse("self.written >= self.count")
    only_when = _lg17.implies(prem17, goal17)

    def full(atom):
        try:
            a = _lg17.parse(atom)
        except Exception:
            return None
        if _lg17.equivalent(a, goal17):
            return True
        if _lg17.equivalent(a, ast.UnaryOp(op=ast.Not(), operand=goal17)):
            return False
        if atom == "self.is_stdout":
            return False
        return None

    incs = [st for st in walk_no_nested(sw) if isinstance(st, ast.AugAssign) and norm(st.target) == "self.written"]
    start17 = scfg.node_of(incs[0]).id if incs else scfg.node_of(wcall).id
    always_when = scfg.exit not in _lg17.reachable_assuming(scfg, start17, full, avoid=lambda n: n.id == cn.id)
    ctx.check(only_when and always_when, "R17.4", "SplitWriter.write:limit-test",
              ("the part is closed although `self.written >= self.count` need not hold" if not only_when else "with `self.written >= self.count` the method can end without closing the part") +
              ": a part can exceed the limit / be cut short", limit_if, "rotation exactly when self.written >= self.count", key="R17.4:SplitWriter.write:limit-test")
    present = [k for k in want if k in eff]
    in_order = present == want and all(scfg.dominates(scfg.node_of(eff[a]).id, scfg.node_of(eff[b]).id) and scfg.node_of(eff[a]).id != scfg.node_of(eff[b]).id
                                       for a, b in zip(want, want[1:]))
    # nothing else with an effect between them: the nodes strictly between close and the new writer are the reset only
    seq = [k for k in sorted(present, key=lambda k: ordkey(eff[k]))]
    ctx.check(in_order and seq == want, "R17.4", "SplitWriter.write:rotation-order", f"on the limit the writer does {seq}", limit_if, " -> ".join(want), key="R17.4:SplitWriter.write:rotation-order")
    inc = [st for st in walk_no_nested(sw) if isinstance(st, ast.AugAssign) and norm(st.target) == "self.written"]
    ctx.check(len(inc) == 1 and isinstance(inc[0].op, ast.Add) and norm(inc[0].value) == "1" and scfg.dominates(scfg.node_of(wcall).id, scfg.node_of(inc[0]).id), "R17.4",
              "SplitWriter.write:counter", "the part counter is not incremented by one per written record", sw, "self.written += 1 after the write")
    check_split_suffix(ctx, "R17.4")
    # stdout detection decides whether the output is split at all: a target given as scheme://NAME puts NAME in the URL's netloc and a bare
    # NAME in its path, so a test that does not consult both cannot tell a file target from stdout
    si = ctx.anchor_func("flow.record.adapter.split.SplitWriter.__init__")
    from ..core import expand_aliases as _ea, single_assign_aliases as _saa

    sal = _saa(si)
    sdefs = [st for st in walk_no_nested(si) if isinstance(st, ast.Assign) and any(norm(t) == "self.is_stdout" for t in st.targets)]
    if len(sdefs) != 1:
        raise AnalysisError("R17.4: SplitWriter.is_stdout assignment not found")
    sexpr = _ea(sdefs[0].value, sal)
    parts_read = set()
    for n in ast.walk(sexpr):
        if isinstance(n, ast.Attribute) and isinstance(n.value, ast.Call) and getattr(prog.resolve_expr(si._module, n.value.func), "name", "") in ("urllib.parse.urlparse", "urllib.parse.urlsplit"):
            parts_read.add(n.attr)
        if isinstance(n, ast.Subscript) and isinstance(n.value, ast.Call) and getattr(prog.resolve_expr(si._module, n.value.func), "name", "") in ("urllib.parse.urlparse", "urllib.parse.urlsplit") \
                and isinstance(n.slice, ast.Constant):
            parts_read.add({1: "netloc", 2: "path"}.get(n.slice.value, str(n.slice.value)))
    uses_helper = any(isinstance(n, ast.Call) and norm(n.func).endswith("is_stdout") for n in ast.walk(sexpr))
    ctx.check({"netloc", "path"} <= parts_read or (not parts_read and uses_helper), "R17.4", "SplitWriter.__init__:stdout-detection",
              f"is_stdout is computed from {sorted(parts_read) or norm(sexpr)[:60]} only: a target like jsonfile://out (name in the netloc) or out.records (name in the path) is mistaken for stdout "
              "and written unsplit", sdefs[0], "netloc and path of the target URL are both consulted", key="R17.4:SplitWriter:stdout-detection-ignores-url-part")
    # the file a record goes to is the one the template names for THAT record: `ts` is the record's own _generated value (the
    # current time only when it has none), handed to the template as it is, together with the record itself
    ptw = ctx.anchor_func("flow.record.stream.PathTemplateWriter.write")
    pcfg = CFG(ptw)
    rec_p = func_params(ptw)[1]
    fmts = [c for c in calls_in(ptw) if isinstance(c.func, ast.Attribute) and c.func.attr == "format" and "path_template" in norm(c.func.value)]
    ctx.floor("R17.4", "template instantiations in PathTemplateWriter.write", len(fmts), 1)
    for fc in fmts:
        kws = {k.arg: k.value for k in fc.keywords if k.arg}
        tsv = kws.get("ts")
        srcs = []
        if isinstance(tsv, ast.Name):
            for d in pcfg.reaching_defs(tsv.id).get(pcfg.node_of(fc).id, set()):
                da = pcfg.nodes[d].ast
                srcs.append(da.value if isinstance(da, ast.Assign) and len(da.targets) == 1 and isinstance(da.targets[0], ast.Name) else None)
        elif tsv is not None:
            srcs = [tsv]
        own_ts = bool(srcs) and all(v is not None and (norm(v) == f"{rec_p}._generated" or (isinstance(v, ast.BoolOp) and isinstance(v.op, ast.Or) and norm(v.values[0]) == f"{rec_p}._generated"
                                                        and all("now" in norm(x) or "utcnow" in norm(x) for x in v.values[1:]))) for v in srcs)
        ctx.check(own_ts and norm(kws.get("record", ast.Constant(None))) == rec_p, "R17.4", "PathTemplateWriter.write:template-arguments",
                  f"the template is instantiated with ts defined by {[norm(v)[:60] if v is not None else '?' for v in srcs]}: a converted or otherwise derived time (and `record` = "
                  f"{norm(kws.get('record', ast.Constant(None)))}) can name another file than the template applied to the record's own _generated value does", fc,
                  f"ts = {rec_p}._generated or <now>, record = {rec_p}", key="R17.4:PathTemplateWriter.write:ts-not-the-records-own")
    # rotation
    rsp = ctx.anchor_func("flow.record.stream.PathTemplateWriter.record_stream_for_path")
    rcfg = CFG(rsp)
    rot = next((c for c in calls_in(rsp) if norm(c.func) == "self.rotate_existing_file"), None)
    opn = next((c for c in calls_in(rsp) if getattr(prog.resolve_expr(rsp._module, c.func), "qualname", "").endswith("RecordWriter")), None)
    ok = rot is not None and opn is not None and norm(rot.args[0]) == norm(opn.args[0]) and rcfg.dominates(rcfg.node_of(rot).id, rcfg.node_of(opn).id)
    ctx.check(ok, "R17.4", "PathTemplateWriter:rotate-before-open", "an existing file at the target path is not renamed before the path is opened for writing", rsp,
              "rotate_existing_file(path) dominates RecordWriter(path)", key="R17.4:PathTemplateWriter:rotate-before-open")
    cur_close = next((c for c in calls_in(rsp) if norm(c.func) == "self.close"), None)
    ctx.check(cur_close is not None, "R17.4", "PathTemplateWriter:closes-previous", "the previous writer is not closed when the path changes", rsp, "self.close() on path change")
    ref = ctx.anchor_func("flow.record.stream.PathTemplateWriter.rotate_existing_file")
    fcfg = CFG(ref)
    ren = [c for c in calls_in(ref) if call_name(c) in ("os.rename", "os.replace", "shutil.move")]
    destructive = [c for c in calls_in(ref) if call_name(c) in ("os.remove", "os.unlink", "open", "io.open", "os.truncate", "shutil.rmtree")]
    ctx.check(len(ren) == 1 and not destructive, "R17.4", "rotate_existing_file:renames-only", "rotation does not consist of exactly one rename", ref, "os.rename(src, dst)")
    if ren:
        dst = ren[0].args[1]
        dst_def = None
        if isinstance(dst, ast.Name):
            for st in walk_no_nested(ref):
                if isinstance(st, ast.Assign) and norm(st.targets[0]) == dst.id:
                    dst_def = st.value
        # provenance: which locals derive (through assignments, formatting, comprehensions, next()) from a clock read inside THIS function
        def _is_clock(c):
            return isinstance(c, ast.Call) and (call_name(c) or "").endswith(("datetime.now", "datetime.utcnow", "time.time", "_utcnow", "time.time_ns"))

        clocked = set()
        assigns17 = [st for st in ast.walk(ref) if isinstance(st, ast.Assign) and len(st.targets) == 1]
        grew17 = True
        while grew17:
            grew17 = False
            for st in assigns17:
                tnames = [x.id for x in ast.walk(st.targets[0]) if isinstance(x, ast.Name)]
                if all(t in clocked for t in tnames):
                    continue
                if any(_is_clock(x) for x in ast.walk(st.value)) or any(isinstance(x, ast.Name) and x.id in clocked for x in ast.walk(st.value)) \
                        or "**locals()" in norm(st.value).replace(" ", "") and clocked:
                    clocked |= set(tnames)
                    grew17 = True
        now_defs = [st for st in assigns17 if any(_is_clock(x) for x in ast.walk(st.value))]
        stamp_in = isinstance(dst, ast.Name) and dst.id in clocked
        clock = bool(now_defs)
        # a stamp handed in from outside (parameter, attribute) is not a clock read at rotation time
        if isinstance(dst, ast.Name) and not stamp_in and dst_def is not None and "stamp" in norm(dst_def):
            stamp_in, clock = True, False
        ctx.check(stamp_in and clock, "R17.4", "rotate_existing_file:stamp",
                  ("the rename target does not carry a rotation stamp" if not stamp_in else
                   f"the rotation stamp comes from `{norm(now_defs[0].value) if now_defs else '?'}`, not from the clock at rotation time: two rotations of the same path by one writer "
                   "produce the same target name and the first rotated file is overwritten"), ren[0], "target = <name>.<stamp from datetime.now()>.<ext>",
                  key="R17.4:rotate_existing_file:stamp-not-from-clock")
        # an existing target must not be overwritten: some existence test on dst must dominate the rename
        facts = {(t, p) for t, p, _ in fcfg.facts_at(fcfg.node_of(ren[0]).id)}
        dtext = norm(dst)
        from .. import logic as _lg

        prem = _lg.facts_as_premises(fcfg.facts_at(fcfg.node_of(ren[0]).id))
        exists_guard = any(_lg.implies(prem, _lg.parse(f"not {fnm}({dtext})")) for fnm in ("os.path.exists", "os.path.lexists"))
        # ... or the target was CHOSEN as a candidate that does not exist: dst = next(c for c in candidates if not os.path.exists(c))
        if not exists_guard and dst_def is not None:
            for g in [n for n in ast.walk(dst_def) if isinstance(n, (ast.GeneratorExp, ast.ListComp)) and len(n.generators) == 1 and isinstance(n.elt, ast.Name)]:
                ev = n_ = g.elt.id
                for cnd in g.generators[0].ifs:
                    if any(_lg.equivalent(cnd, _lg.parse(f"not {fnm}({ev})")) for fnm in ("os.path.exists", "os.path.lexists")):
                        exists_guard = True
        ctx.check(exists_guard, "R17.4", "rotate_existing_file:never-overwrites",
                  f"os.rename(src, {dtext}) replaces an existing {dtext} silently (POSIX): the stamp has one-second resolution and nothing tests whether the target exists, so two "
                  "rotations of one path within a second lose the first rotated file", ren[0], "existence of the target is tested before renaming",
                  key="R17.4:rotate_existing_file:may-overwrite-target")

    # ------------------------------------------------------------------ R17.5 (sibling rule) a failed statement does not take accepted records with it
    ctx.import_rule("C18", "R18.3", "R17.5", "every record the SQLite writer accepted is on disk after close: transaction control is issued only by tx_cycle (a ROLLBACK on an error path discards the batch)")
    ctx.import_rule("C18", "R18.6", "R17.7", "every record written is readable: the reader lists every table the writer can create (no pattern that hides a legal type name)")
    # every record written is readable after close, whatever the order of flush() and write(): one Avro container header per file
    # (the rule function of C19 is called directly: C19 takes R17.4 over from this module, so a mutual import_rule would not end)
    from .c19 import check_one_container_header as _one_header17
    _one_header17(ctx, "R17.8")

    # ------------------------------------------------------------------ R17.6 close() finalises unconditionally
    ctx.rule("R17.6", "in close() of the buffered writers the finalising call (writer.flush() / fp.flush() / commit) depends only on the resource existing (self.fp, self.writer, "
                      "self.con ...), never on a state flag some other method keeps (`not self.flushed`): a flag that is not reset by every write() makes close() skip the records written "
                      "after the last explicit flush()")
    n6 = 0
    for q6 in ("flow.record.adapter.avro.AvroWriter.close", "flow.record.adapter.sqlite.SqliteWriter.close", "flow.record.adapter.jsonfile.JsonfileWriter.close",
               "flow.record.adapter.csvfile.CsvfileWriter.close", "flow.record.stream.RecordStreamWriter.close"):
        f6 = prog.find(q6, required=False)
        if f6 is None:
            continue
        cls6 = f6._parent if isinstance(getattr(f6, "_parent", None), ast.ClassDef) else None
        cfg6 = CFG(f6)
        flag_attrs = set()
        if cls6 is not None:
            for m6 in prog.methods_of(cls6).values():
                for n in ast.walk(m6):
                    if isinstance(n, ast.Assign) and isinstance(n.value, ast.Constant) and isinstance(n.value.value, bool):
                        flag_attrs |= {t.attr for t in n.targets if isinstance(t, ast.Attribute) and norm(t.value) == "self"}
        for c6 in calls_in(f6):
            if not (isinstance(c6.func, ast.Attribute) and c6.func.attr in ("flush", "commit", "tx_cycle", "close") and norm(c6.func.value).startswith("self")):
                continue
            n6 += 1
            facts6 = [(t, p) for t, p, _ in cfg6.facts_at((cfg6.header_node_for_expr(c6) or cfg6.node_of(c6)).id)]
            flagged = sorted({a for t, p in facts6 for a in flag_attrs if re.search(r"\bself\." + re.escape(a) + r"\b", t)})
            ctx.check(not flagged, "R17.6", f"{q6.split('flow.record.')[1]}:{norm(c6.func)}", f"`{norm(c6)}` in close() runs only under a test of the state flag(s) {flagged}: records written "
                      "after the flag was last set are not finalised", c6, "depends only on the resource being open", key=f"R17.6:{q6.split('flow.record.')[1]}:finalise-under-flag")
    ctx.floor("R17.6", "finalising calls in close() methods", n6, 4)



def _same_guarded_block(a, b, cfg) -> bool:
    """flush() and the release sit in the same `if <resource>:` block (flush first)."""
    pa, pb = getattr(a.ast, "_parent", None), getattr(b.ast, "_parent", None)
    while pb is not None and not isinstance(pb, ast.If):
        pb = getattr(pb, "_parent", None)
    while pa is not None and not isinstance(pa, ast.If):
        pa = getattr(pa, "_parent", None)
    return pa is not None and pa is pb and ordkey(a) < ordkey(b)
