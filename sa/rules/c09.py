"""C09 - The interpreted selector is a sandbox."""
from __future__ import annotations

import ast

from ..cfg import CFG
from ..core import (AnalysisError, DefRef, LambdaRef, NotConst, Ref, call_name, calls_in, dotted, enclosing_function,
                    func_params, norm, qualname_of, walk_no_nested, expand_aliases, single_assign_aliases)
from .. import logic
from .c06 import all_paths_raise

PROPERTY = "C09"
EXPLANATION = (
    "The analysed program is the interpreter itself. Decides: (R9.1) the inventory of places where RecordContextMatcher "
    "invokes a runtime value - exactly one arbitrary-call site, all other dynamic calls apply entries of the constant "
    "operator tables; (R9.2) the vetting predicate in front of the arbitrary call decides about the very object that is "
    "invoked: resolve_attr_path is total and exact (a non-Name root raises); (R9.3) namespace separation - the predicate "
    "consults only containers that expression-driven stores cannot extend, and every root name that passes the predicate is "
    "refused as a generator variable; (R9.4) every getattr whose attribute NAME derives from the expression (AST attr, AST "
    "name, helper `fields` argument, Type-matcher attribute chain) is dominated by a refusal of names starting with '__'; "
    "(R9.5) nothing reachable from matches() stores into / deletes from an object other than the matcher itself; (R9.6) no "
    "branch creates callables or bindings (Lambda, NamedExpr, ...). NOT decided: what whitelisted helpers and field-type "
    "constructors do with hostile arguments (e.g. catastrophic regexes)."
    " Also decided (rules added after the fifth blind round): the call predicate is followed into the matcher methods it calls and the locals it reads (a lazily built name set is a read of the live namespace); a getattr NAME that cannot be traced to a validated source needs the `__` refusal."
    " Rules added after the sixth blind round: (R9.1 extended) TypeMatcher / TypeMatcherInstance / WrappedRecord call no runtime value held in a local; (R9.3) WHITELIST is complete when WHITELIST_TREE is built."
)
RULE_SUMMARY = ("instances: dynamic call sites, getattr sites, store sites, guard/predicate pairs; non-trivial = a dominance or "
                "provenance question had to be answered for the site")

SAFE_TABLE_VALUES = ("operator.",)
FORBIDDEN_KINDS = {"Lambda", "NamedExpr", "Starred", "ListComp", "SetComp", "DictComp", "Await", "Yield", "YieldFrom"}


def funcs_in(node):
    return [n for n in ast.walk(node) if isinstance(n, (ast.FunctionDef, ast.AsyncFunctionDef))]


def run(ctx):
    prog = ctx.prog
    sel = prog.module("flow.record.selector")
    ctx.use(sel)
    rcm = ctx.anchor_cls("flow.record.selector.RecordContextMatcher")
    ev_fn = ctx.anchor_func("flow.record.selector.RecordContextMatcher._eval")
    matches = ctx.anchor_func("flow.record.selector.RecordContextMatcher.matches")
    p_node = func_params(ev_fn)[1]
    cfg = CFG(ev_fn)

    # ------------------------------------------------------------------ R9.1 invocation-site inventory
    ctx.rule("R9.1", "dynamic call sites in RecordContextMatcher: exactly one calls an arbitrary runtime value (the Call branch); "
                     "every other dynamic callee is an entry of the constant operator tables (operator.* / reviewed lambdas)")
    dynamic_sites = []
    table_sites = []
    for fn in funcs_in(rcm):
        local_names = set(func_params(fn))
        for n in walk_no_nested(fn):
            if isinstance(n, (ast.Assign, ast.For, ast.comprehension)):
                tg = n.targets if isinstance(n, ast.Assign) else [n.target]
                for t in tg:
                    for x in ast.walk(t):
                        if isinstance(x, ast.Name):
                            local_names.add(x.id)
        for c in calls_in(fn):
            f = c.func
            if isinstance(f, ast.Subscript) and dotted(f.value) in ("AST_OPERATORS", "AST_COMPARATORS"):
                table_sites.append((fn, c, dotted(f.value)))
            elif isinstance(f, ast.Name) and f.id in local_names and prog.resolve_global(sel, f.id) is None and f.id not in (
                    n.name for n in funcs_in(rcm)):
                # a local variable is being called: where does it come from?
                src = None
                for st in walk_no_nested(fn):
                    if isinstance(st, ast.Assign) and any(isinstance(t, ast.Name) and t.id == f.id for t in st.targets):
                        src = st.value
                if isinstance(src, ast.Subscript) and dotted(src.value) in ("AST_OPERATORS", "AST_COMPARATORS"):
                    table_sites.append((fn, c, dotted(src.value)))
                else:
                    dynamic_sites.append((fn, c, src))
            elif isinstance(f, (ast.Call, ast.Subscript, ast.Attribute)) and not dotted(f):
                root = f
                while isinstance(root, ast.Attribute):
                    root = root.value
                if isinstance(root, ast.Constant):
                    continue  # method of a literal ("...".format)
                dynamic_sites.append((fn, c, f))
    ctx.floor("R9.1", "operator-table applications", len(table_sites), 4)
    ctx.check(len(dynamic_sites) == 1, "R9.1", "RecordContextMatcher:arbitrary-call-sites",
              f"{len(dynamic_sites)} sites call an arbitrary runtime value: " + "; ".join(f"{norm(c)} (line {c.lineno})" for _, c, _ in dynamic_sites),
              dynamic_sites[0][1] if dynamic_sites else rcm, f"single arbitrary-call site: {norm(dynamic_sites[0][1]) if dynamic_sites else ''}",
              key="R9.1:RecordContextMatcher:arbitrary-call-sites")
    for tname in ("AST_OPERATORS", "AST_COMPARATORS"):
        table = prog.fold(sel, ast.parse(tname).body[0].value)
        for k, v in table.items():
            kn = k.name if isinstance(k, Ref) else repr(k)
            if isinstance(v, Ref):
                ctx.check(v.name.startswith("operator."), "R9.1", f"{tname}[{kn}]", f"table entry {v.name} is not an operator function", None,
                          f"{v.name}")
            elif isinstance(v, LambdaRef):
                inner = [c for c in ast.walk(v.node.body) if isinstance(c, ast.Call)]
                bad = []
                for c in inner:
                    r = prog.resolve_expr(sel, c.func)
                    if not (isinstance(r, Ref) and (r.name.startswith("operator.") or r.name == "builtins.isinstance")):
                        bad.append(norm(c.func))
                ctx.check(not bad, "R9.1", f"{tname}[{kn}]", f"lambda calls {bad}", v.node, "lambda applies only isinstance/operator.*")
            elif isinstance(v, DefRef) and isinstance(v.node, ast.FunctionDef):
                inner = [c for c in ast.walk(v.node) if isinstance(c, ast.Call)]
                bad = []
                for c in inner:
                    r = prog.resolve_expr(sel, c.func)
                    if not (isinstance(r, Ref) and (r.name.startswith("operator.") or r.name == "builtins.isinstance")):
                        bad.append(norm(c.func))
                ctx.check(not bad, "R9.1", f"{tname}[{kn}]", f"comparator function calls {bad}", v.node, "function applies only isinstance/operator.*")
            else:
                ctx.fail("R9.1", f"{tname}[{kn}]", f"table entry {v!r} is not an operator function or reviewed lambda", None)

    if not dynamic_sites:
        raise AnalysisError("R9.1: the arbitrary-call site of the Call branch was not found")
    call_fn, call_site, func_src = dynamic_sites[0]
    call_node = cfg.node_of(call_site)

    # the helper objects an expression reaches without a Call node (Type.<t>.<attr> comparisons unroll values, r.<f> reads): they invoke nothing
    # that is a runtime value - a callee that is a local variable (other than a parameter: the operator handed in by the comparison methods) would
    # call a method of a stored value although the expression contains no call at all
    for cq in ("flow.record.selector.TypeMatcherInstance", "flow.record.selector.TypeMatcher", "flow.record.selector.WrappedRecord"):
        kc = prog.cls(cq)
        for fn in funcs_in(kc):
            params_k = set(func_params(fn))
            locals_k = {x.id for n in walk_no_nested(fn) if isinstance(n, (ast.Assign, ast.For, ast.comprehension, ast.AugAssign, ast.NamedExpr))
                        for t in (n.targets if isinstance(n, ast.Assign) else [n.target]) for x in ast.walk(t) if isinstance(x, ast.Name)} - params_k
            for c in calls_in(fn):
                if isinstance(c.func, ast.Name) and c.func.id in locals_k:
                    ctx.fail("R9.1", f"{cq.split('.')[-1]}.{fn.name}:calls-runtime-value:{c.func.id}", f"`{norm(c)[:50]}` invokes the runtime value held in `{c.func.id}`: comparing or iterating a "
                             "typed matcher then calls a method of a stored field value, with no call in the expression for the sandbox to vet", c,
                             key=f"R9.1:{cq.split('.')[-1]}.{fn.name}:calls-runtime-value")
    # ------------------------------------------------------------------ R9.2 check/use coherence
    ctx.rule("R9.2", "the call predicate tests a name string that determines the invoked object: the callee expression is the "
                     "Name/Attribute chain that resolve_attr_path spells out, and resolve_attr_path raises for any other root")
    # the invoked object must be self.eval(node.func)
    ctx.check(isinstance(func_src, ast.Call) and norm(func_src.func) in ("self.eval", "self._eval") and norm(func_src.args[0]) == f"{p_node}.func",
              "R9.2", "_eval:Call:callee", f"the invoked object is {norm(func_src) if func_src is not None else None}, not eval(node.func)", call_site,
              "callee = self.eval(node.func)")
    # the name string(s): variables assigned (directly or through plain copies) from resolve_attr_path(node)
    from ..logic import atoms as _atoms, formula as _formula, reachable_assuming

    name_vars = set()
    for st in walk_no_nested(ev_fn):
        if isinstance(st, ast.Assign) and isinstance(st.value, ast.Call):
            r = prog.resolve_expr(sel, st.value.func)
            if isinstance(r, DefRef) and r.qualname.endswith("resolve_attr_path") and isinstance(st.targets[0], ast.Name):
                name_vars.add(st.targets[0].id)
    changed = True
    while changed:
        changed = False
        for st in walk_no_nested(ev_fn):
            if isinstance(st, ast.Assign) and isinstance(st.value, ast.Name) and st.value.id in name_vars and isinstance(st.targets[0], ast.Name) \
                    and st.targets[0].id not in name_vars:
                name_vars.add(st.targets[0].id)
                changed = True
    if not name_vars:
        raise AnalysisError("R9.2: no variable is assigned from resolve_attr_path(node) in _eval")
    call_branch_if = next((st for st in walk_no_nested(ev_fn) if isinstance(st, ast.If) and isinstance(st.test, ast.Call)
                           and call_name(st.test) == "isinstance" and norm(st.test.args[1]) == "ast.Call"), None)
    if call_branch_if is None:
        raise AnalysisError("R9.2: Call branch of _eval not found")
    branch_nodes = {id(n) for s0 in call_branch_if.body for n in ast.walk(s0)}
    # vetting atoms: atomic conditions of tests inside the Call branch that mention a name variable
    vet_atoms = {}
    for st in [x for s0 in call_branch_if.body for x in ast.walk(s0) if isinstance(x, ast.If)]:
        for a in _atoms(_formula(st.test)):
            try:
                ae = ast.parse(a, mode="eval").body
            except SyntaxError:
                continue
            if any(isinstance(n, ast.Name) and n.id in name_vars for n in ast.walk(ae)):
                vet_atoms[a] = ae
    ctx.floor("R9.2", "vetting conditions on the resolved call name", len(vet_atoms), 1)
    first_node = cfg.node_of(call_branch_if.body[0])
    reach = reachable_assuming(cfg, first_node.id, lambda a: False if a in vet_atoms else None)
    ctx.check(call_node.id not in reach, "R9.2", "_eval:Call:vetted-before-call",
              "the arbitrary call is reachable on a path where none of the whitelist tests on the call name succeeded", call_site,
              f"call unreachable unless one of {sorted(vet_atoms)} holds", key="R9.2:_eval:Call:reachable-unvetted")
    ctx.sample({"rule": "R9.2", "vetting_atoms": sorted(vet_atoms)})

    class _Pred:  # the rest of the rules only need the text / node of the vetting tests
        pass

    pred_if = _Pred()
    pred_if.test = ast.BoolOp(op=ast.Or(), values=list(vet_atoms.values())) if len(vet_atoms) > 1 else next(iter(vet_atoms.values()))
    pred_anchor = call_site
    rap = ctx.anchor_func("flow.record.selector.resolve_attr_path")
    rcfg = CFG(rap)
    rets = [n for n in rcfg.stmt_nodes() if isinstance(n.ast, ast.Return)]
    ctx.floor("R9.2", "returns of resolve_attr_path", len(rets), 1)
    for rn in rets:
        facts = {(t, p) for t, p, _ in rcfg.facts_at(rn.id)}
        root_ok = any(p and t.startswith("isinstance(") and t.endswith(", ast.Name)") for t, p in facts)
        ctx.check(root_ok, "R9.2", "resolve_attr_path:root",
                  "a path returns a name although the chain is not rooted in an ast.Name: `f(x).upper()` or `'abc'.upper()` resolve to the "
                  "bare trailing attribute name, which may pass the whitelist while an arbitrary method is invoked", rn.ast,
                  "every return is reached only when the root of the chain is an ast.Name", key="R9.2:resolve_attr_path:non-name-root")
    # exactness: every Attribute link contributes its attr, the root contributes its id
    txt = {norm(n) for n in ast.walk(rap)}
    def recorded(attr):
        for c in ast.walk(rap):
            if isinstance(c, ast.Call) and isinstance(c.func, ast.Attribute) and c.func.attr in ("append", "insert", "appendleft", "extend") and \
                    any(isinstance(a, ast.Attribute) and a.attr == attr for x in c.args for a in ast.walk(x)):
                return True
            if isinstance(c, (ast.BinOp, ast.JoinedStr, ast.AugAssign)) and any(isinstance(a, ast.Attribute) and a.attr == attr for a in ast.walk(c)):
                return True
        return False

    has_attr, has_id = recorded("attr"), recorded("id")
    loops = [n for n in ast.walk(rap) if isinstance(n, ast.While)]
    ctx.check(has_attr and has_id and loops, "R9.2", "resolve_attr_path:exact", "the resolved path does not contain every link of the chain",
              rap, "path = root id + every .attr of the chain")

    # ------------------------------------------------------------------ R9.3 namespace separation
    ctx.rule("R9.3", "(i) containers read by the call predicate are not extended by expression-driven stores; (ii) every root "
                     "name that can pass the predicate is refused as a generator variable (the Name lookup consults self.data first)")
    # B-stores: subscript stores into self.<X> whose key derives from the expression (anything but a constant key)
    b_containers = {}
    for fn in funcs_in(rcm):
        if fn is matches or fn.name == "__init__":
            continue
        for n in ast.walk(fn):
            if isinstance(n, ast.Subscript) and isinstance(n.ctx, ast.Store) and dotted(n.value) and dotted(n.value).startswith("self."):
                if not isinstance(n.slice, ast.Constant):
                    b_containers.setdefault(dotted(n.value), []).append(n)
            if isinstance(n, ast.Call) and isinstance(n.func, ast.Attribute) and n.func.attr in ("update", "setdefault", "add", "append", "__setitem__") \
                    and dotted(n.func.value) and dotted(n.func.value).startswith("self."):
                b_containers.setdefault(dotted(n.func.value), []).append(n)
    ctx.floor("R9.3", "expression-driven stores into matcher state", sum(len(v) for v in b_containers.values()), 1)
    pred_reads = {dotted(n) for n in ast.walk(pred_if.test) if isinstance(n, ast.Attribute) and dotted(n) and dotted(n).startswith("self.")}
    # ... and what the locals it mentions were read from (`names = self.callables; if f in names`)
    for ln in [n for n in ast.walk(pred_if.test) if isinstance(n, ast.Name)]:
        for st in walk_no_nested(ev_fn):
            if isinstance(st, ast.Assign) and any(isinstance(t, ast.Name) and t.id == ln.id for t in st.targets):
                pred_reads |= {dotted(n) for n in ast.walk(st.value) if isinstance(n, ast.Attribute) and dotted(n) and dotted(n).startswith("self.")}
    # a predicate that asks a method of the matcher reads what that method reads (and the method's stores are stores outside matches())
    rcm_methods = {f.name: f for f in funcs_in(rcm) if getattr(f, "_parent", None) is rcm}
    seen_m = set()
    work_m = [n.func.attr for n in ast.walk(pred_if.test) if isinstance(n, ast.Call) and isinstance(n.func, ast.Attribute) and norm(n.func.value) == "self" and n.func.attr in rcm_methods]
    while work_m:
        mname = work_m.pop()
        if mname in seen_m:
            continue
        seen_m.add(mname)
        mfn = rcm_methods[mname]
        me = func_params(mfn)[0] if func_params(mfn) else "self"
        for n in ast.walk(mfn):
            if isinstance(n, ast.Attribute) and dotted(n) and dotted(n).startswith(me + "."):
                pred_reads.add("self." + dotted(n)[len(me) + 1:])
            if isinstance(n, ast.Call) and isinstance(n.func, ast.Attribute) and norm(n.func.value) == me and n.func.attr in rcm_methods:
                work_m.append(n.func.attr)
    pred_reads = {d for d in pred_reads if d.split(".")[1] not in rcm_methods}
    # strip method names: self.data.get -> self.data
    pred_containers = set()
    for d in pred_reads:
        parts = d.split(".")
        pred_containers.add(".".join(parts[:2]))
    clash = sorted(pred_containers & set(b_containers))
    ctx.check(not clash, "R9.3", "_eval:Call:predicate-containers",
              f"the call predicate consults {clash}, which generator variables are stored into: `any(f() for f in [r.s.upper])` binds an "
              "arbitrary bound method to a name that then passes the predicate", pred_anchor,
              f"predicate reads {sorted(pred_containers) or ['(module constants only)']}; expression-driven stores go to {sorted(b_containers)}",
              key="R9.3:predicate-reads-bindable-namespace")
    # containers read by the predicate must be assigned only in matches()/__init__ and not mutated elsewhere
    for cont in sorted(pred_containers):
        attr = cont.split(".")[1]
        writers = set()
        for fn in funcs_in(rcm):
            for n in ast.walk(fn):
                if isinstance(n, ast.Attribute) and dotted(n) == cont and isinstance(n.ctx, ast.Store):
                    writers.add(fn.name)
        ctx.check(writers <= {"matches", "__init__"}, "R9.3", f"{cont}:writers", f"{cont} is assigned in {sorted(writers)}", rcm,
                  f"{cont} is assigned only in {sorted(writers)}")
    # V: names that pass the predicate
    wl = prog.fold(prog.module("flow.record.whitelist"), ast.parse("WHITELIST").body[0].value)
    pred_text = norm(pred_if.test)
    v_roots = set()
    uses_whitelist = any(isinstance(n, ast.Name) and n.id == "WHITELIST" for n in ast.walk(pred_if.test))
    if uses_whitelist:
        v_roots |= {w.split(".")[0] for w in wl}
    data_names = set()
    for d in ast.walk(matches):
        if isinstance(d, ast.Dict):
            data_names |= {k.value for k in d.keys if isinstance(k, ast.Constant) and isinstance(k.value, str)}
        if isinstance(d, ast.Subscript) and norm(d.value) == "self.data" and isinstance(d.slice, ast.Constant) and isinstance(d.ctx, ast.Store):
            data_names.add(d.slice.value)
    fw = prog.fold(sel, ast.parse("FUNCTION_WHITELIST").body[0].value)
    data_names |= {r.qualname.split(".")[-1] for r in fw if isinstance(r, DefRef)}
    # G: what the generator-variable guard refuses.  Accepted spellings of "some generator target is a known name -> raise":
    #   (a) for gen in node.generators: if <target.id in X ...>: raise
    #   (b) if any(<target.id in X ...> for gen in node.generators): raise
    #   (c) v = next((... for gen in node.generators if <target.id in X ...>), None) ; if v is not None: raise
    guard_ifs = []
    guard_tests = {}  # id(if stmt) -> expression holding the membership tests
    guard_loops = {}  # id(if stmt) -> For loop or None (comprehension forms visit every generator by construction)

    def _mentions_target_id(e):
        return any(isinstance(n, ast.Attribute) and n.attr == "id" and isinstance(n.value, ast.Attribute) and n.value.attr == "target" for n in ast.walk(e))

    # (the guard may sit in _eval's nested generator functions or in a method of the matcher the GeneratorExp branch hands the node to)
    for fn in list(funcs_in(ev_fn)) + [f for f in funcs_in(rcm) if f is not ev_fn and not any(f is g for g in funcs_in(ev_fn))]:
        fal = single_assign_aliases(fn)
        for st in ast.walk(fn):
            if not (isinstance(st, ast.If) and all_paths_raise(cfg, st.body)):
                continue
            t = st.test
            if _mentions_target_id(t) and not any(isinstance(n, (ast.GeneratorExp, ast.ListComp)) for n in ast.walk(t)):
                lp = getattr(st, "_parent", None)
                while lp is not None and not isinstance(lp, ast.For):
                    lp = getattr(lp, "_parent", None)
                guard_ifs.append(st)
                guard_tests[id(st)] = t
                guard_loops[id(st)] = lp
                continue
            te = expand_aliases(t, fal)
            comps = [n for n in ast.walk(te) if isinstance(n, (ast.GeneratorExp, ast.ListComp)) and len(n.generators) == 1 and norm(n.generators[0].iter).endswith(".generators")]
            for cp in comps:
                par_ok = False
                held = None
                # (b) any(<tests> for ...)   /   (c) next((... if <tests>), None) is not None
                for n in ast.walk(te):
                    if isinstance(n, ast.Call) and call_name(n) == "any" and n.args and n.args[0] is cp and _mentions_target_id(cp.elt) and not cp.generators[0].ifs:
                        par_ok, held = logic.implies([(te, True)], n) , cp.elt
                    if isinstance(n, ast.Call) and call_name(n) == "next" and len(n.args) == 2 and n.args[0] is cp and isinstance(n.args[1], ast.Constant) and n.args[1].value is None \
                            and cp.generators[0].ifs and all(_mentions_target_id(c) for c in cp.generators[0].ifs):
                        nn = ast.Compare(left=n, ops=[ast.IsNot()], comparators=[ast.Constant(value=None)])
                        par_ok = logic.equivalent(te, nn) or logic.equivalent(te, n)
                        held = ast.BoolOp(op=ast.And(), values=list(cp.generators[0].ifs)) if len(cp.generators[0].ifs) > 1 else cp.generators[0].ifs[0]
                if par_ok and held is not None:
                    guard_ifs.append(st)
                    guard_tests[id(st)] = held
                    guard_loops[id(st)] = None
    ctx.floor("R9.3", "generator-variable guards", len(guard_ifs), 1)
    g_containers = set()
    for st in guard_ifs:
        for n in ast.walk(guard_tests[id(st)]):
            if isinstance(n, ast.Compare) and len(n.ops) == 1 and isinstance(n.ops[0], ast.In):
                g_containers.add(norm(n.comparators[0]))
    covered = set()
    if "self.data" in g_containers:
        covered |= data_names
    if "WHITELIST_TREE" in g_containers:
        if whitelist_tree_roots_ok(prog):
            covered |= {w.split(".")[0] for w in wl}
    if "WHITELIST" in g_containers:
        covered |= set(wl)
    # names passing the predicate through the self.<container> route are keys of self.data at matches() time
    missing = sorted(v_roots - covered)
    ctx.check(not missing, "R9.3", "_eval:GeneratorExp:guard-covers-vetted-roots",
              f"generator variables named {missing[:6]}{'...' if len(missing) > 6 else ''} are not refused although calls on these roots pass the "
              f"whitelist by name: `any({missing[0] if missing else 'x'}() for {missing[0] if missing else 'x'} in [r.s.upper])` invokes an "
              "arbitrary bound method", guard_ifs[0] if guard_ifs else ev_fn, f"guard tests membership in {sorted(g_containers)}, covering all {len(v_roots)} whitelist roots "
              "and every name of the matcher namespace", key="R9.3:generator-variable-may-shadow-vetted-root")
    # the guard must run before any binding: it precedes the call that starts the generator recursion
    gen_branch = next((st for st in walk_no_nested(ev_fn) if isinstance(st, ast.If) and isinstance(st.test, ast.Call)
                       and call_name(st.test) == "isinstance" and norm(st.test.args[1]) == "ast.GeneratorExp"), None)
    if gen_branch is None:
        raise AnalysisError("R9.3: GeneratorExp branch not found")
    for fn in funcs_in(gen_branch):
        gifs = [g for g in guard_ifs if enclosing_function(g) is fn]
        if not gifs:
            continue
        fcfg = CFG(fn)
        loop = guard_loops[id(gifs[0])] or gifs[0]
        binders = [c for c in calls_in(fn) if isinstance(c.func, ast.Name) and c.func.id in {f.name for f in funcs_in(gen_branch)}]
        for b in binders:
            ctx.check(loop is not None and fcfg.dominates(fcfg.node_of(loop).id, fcfg.node_of(b).id), "R9.3",
                      "_eval:GeneratorExp:guard-before-binding", "generator variables can be bound before the guard has run", b,
                      "the guard loop over node.generators dominates the start of the binding recursion")
        early = [n for n in ast.walk(loop) if isinstance(n, (ast.Break, ast.Continue))] if isinstance(loop, ast.For) else []
        ctx.check(not early, "R9.3", "_eval:GeneratorExp:guard-loop-complete", "the guard loop can skip generators", loop or fn,
                  "every generator target is tested")

    # ------------------------------------------------------------------ R9.5 namespace functions do not call into their arguments
    ctx.rule("R9.5", "RecordDescriptor.getfields (the expression's `fields`) calls a method of its argument only when the argument is an instance of the package's own "
                     "DynamicFieldtypeModule - never by duck typing on whatever object the expression supplies")
    gf = ctx.anchor_func("flow.record.base.RecordDescriptor.getfields")
    ctx.use(gf._module)
    gcfg = CFG(gf)
    gparam = func_params(gf)[1]
    derived = {gparam}
    for st in walk_no_nested(gf):
        if isinstance(st, ast.Assign) and len(st.targets) == 1 and isinstance(st.targets[0], ast.Name) and isinstance(st.value, ast.Call) and call_name(st.value) == "getattr" \
                and st.value.args and norm(st.value.args[0]) in derived:
            derived.add(st.targets[0].id)
    n_inv = 0
    for c in calls_in(gf):
        root = c.func
        while isinstance(root, ast.Attribute):
            root = root.value
        via_getattr = isinstance(c.func, ast.Call) and call_name(c.func) == "getattr" and c.func.args and norm(c.func.args[0]) in derived
        if not ((isinstance(root, ast.Name) and root.id in derived and (isinstance(c.func, ast.Attribute) or root.id != gparam)) or via_getattr):
            continue
        if isinstance(c.func, ast.Name) and c.func.id == gparam:
            pass
        n_inv += 1
        nd = gcfg.header_node_for_expr(c) or gcfg.node_of(c)
        from ..core import expr_conditions as _ec9

        prem = logic.facts_as_premises(gcfg.facts_at(nd.id)) + list(_ec9(c))
        typed = any(logic.implies(prem, logic.parse(f"isinstance({gparam}, {k})")) for k in ("DynamicFieldtypeModule",))
        ctx.check(typed, "R9.5", f"RecordDescriptor.getfields:invokes:{norm(c)[:40]}", f"`{norm(c)}` calls into the caller-supplied argument without an isinstance({gparam}, DynamicFieldtypeModule) "
                  f"test: `fields(r.x)` in an expression invokes a method of an arbitrary object", c, "only under isinstance(<arg>, DynamicFieldtypeModule)",
                  key="R9.5:getfields:duck-typed-invocation")
    ctx.floor("R9.5", "invocations of the argument in getfields", n_inv, 1)

    # ------------------------------------------------------------------ R9.4 dunder refusal before expression-named getattr
    ctx.rule("R9.4", "every getattr(obj, NAME[, default]) reachable from matches() whose NAME derives from the expression is "
                     "dominated by a refusal (raise / skip) of names starting with '__' (or '_')")
    helper_fns = [r.node for r in fw if isinstance(r, DefRef) and isinstance(r.node, ast.FunctionDef)]
    # helpers called by the whitelisted helpers with a pass-through name parameter
    reach = list(helper_fns)
    seen = set(id(f) for f in reach)
    for fn in list(reach):
        for c in calls_in(fn):
            r = prog.resolve_expr(sel, c.func) if isinstance(c.func, ast.Name) else None
            if isinstance(r, DefRef) and isinstance(r.node, ast.FunctionDef) and id(r.node) not in seen and r.node._module is sel:
                seen.add(id(r.node))
                reach.append(r.node)
    tm_classes = [prog.cls("flow.record.selector.TypeMatcher"), prog.cls("flow.record.selector.TypeMatcherInstance")]
    scopes = list(funcs_in(rcm)) + reach + [m for c in tm_classes for m in prog.methods_of(c).values()]
    sites = 0
    helper_names = {f.name for f in helper_fns}
    for fn in scopes:
        fparams = func_params(fn)
        fcfg = None
        for c in calls_in(fn):
            if call_name(c) != "getattr" or len(c.args) < 2:
                continue
            name_arg = c.args[1]
            if isinstance(name_arg, ast.Constant):
                continue
            sites += 1
            construct = f"{qualname_of(fn).replace('flow.record.selector.', '')}:getattr({norm(c.args[0])}, {norm(name_arg)})"
            fcfg = fcfg or CFG(enclosing_function(c) if enclosing_function(c) is not None else fn)
            scope_fn = enclosing_function(c)
            scfg = CFG(scope_fn)
            node = scfg.node_of(c)
            facts = {(t, p) for t, p, _ in scfg.facts_at(node.id)}
            pass

            al = single_assign_aliases(scope_fn)
            name_x = expand_aliases(name_arg, al)
            na = norm(name_x)
            refused = refusal_holds(prog, scope_fn._module, facts, al, na)
            kind = classify_name(prog, sel, scope_fn, name_x, p_node, helper_names)
            if kind == "descriptor-field":
                ctx.ok("R9.4", construct, "NAME is a field name taken from the record's descriptor (validated identifiers, never '_'-prefixed)", c)
            elif kind == "matcher-attrs":
                ok = attrs_guarded(prog)
                ctx.check(ok, "R9.4", construct, "attribute names collected by TypeMatcherInstance.__getattr__ are not filtered for a leading '_'",
                          c, "names come from TypeMatcherInstance.__getattr__, which only accepts names not starting with '_'")
            elif kind in ("expression", "caller-supplied"):
                ctx.check(refused, "R9.4", construct,
                          f"NAME ({na}) is taken from the expression ({kind}) and no refusal of '__' names dominates this getattr: a double-"
                          "underscore attribute can be read", c, f"dominated by the refusal of {na}.startswith('__')",
                          key=f"R9.4:{qualname_of(scope_fn).replace('flow.record.selector.', '')}:unguarded-getattr:{na}")
            else:
                # a name the classifier cannot trace to the descriptor or to the matcher's filtered attribute list is treated like
                # expression text: it must be refused when it starts with '__' before the getattr runs
                ctx.check(refused, "R9.4", construct,
                          f"NAME ({na}) cannot be traced to a validated source (descriptor field names, the matcher's filtered attribute list) and no refusal of '__' "
                          "names dominates this getattr: a double-underscore attribute can be read", c, f"dominated by the refusal of {na}.startswith('__')",
                          key=f"R9.4:{qualname_of(scope_fn).replace('flow.record.selector.', '')}:unguarded-getattr:{na}")
    ctx.floor("R9.4", "getattr sites with a non-constant attribute name", sites, 5)

    # ------------------------------------------------------------------ R9.5 no mutation of the record
    ctx.rule("R9.5", "code reachable from matches() stores attributes only on the matcher objects themselves, never calls "
                     "setattr/delattr, and deletes nothing")
    n_scopes = 0
    for fn in scopes + [m for m in prog.methods_of(prog.cls("flow.record.selector.WrappedRecord")).values()]:
        n_scopes += 1
        selfname = None
        m = fn
        while m is not None:
            if isinstance(m, ast.FunctionDef) and isinstance(getattr(m, "_parent", None), ast.ClassDef) and func_params(m):
                selfname = func_params(m)[0]  # methods, and functions nested in methods (closure over self)
                break
            m = getattr(m, "_parent", None)
        for n in ast.walk(fn):
            bad = None
            if isinstance(n, ast.Attribute) and isinstance(n.ctx, (ast.Store, ast.Del)):
                root = n.value
                while isinstance(root, ast.Attribute):
                    root = root.value
                if not (isinstance(root, ast.Name) and root.id == selfname):
                    bad = f"stores attribute {norm(n)}"
                elif isinstance(n.value, ast.Attribute):
                    bad = f"stores into a sub-object {norm(n)}" if dotted(n.value) in ("self.rec", "self._rec", "self.record") else None
            elif isinstance(n, ast.Call) and call_name(n) in ("setattr", "delattr", "object.__setattr__", "object.__delattr__"):
                bad = f"calls {call_name(n)}"
            elif isinstance(n, ast.Delete):
                bad = f"deletes {norm(n)}"
            elif isinstance(n, ast.Subscript) and isinstance(n.ctx, (ast.Store, ast.Del)):
                d = dotted(n.value) or ""
                if not (d.startswith("self.") and selfname == "self" and d not in ("self.rec", "self._rec", "self.record")):
                    if not (isinstance(n.value, ast.Name) and n.value.id not in func_params(fn)):
                        bad = f"stores item {norm(n)}"
            if bad:
                ctx.fail("R9.5", f"{qualname_of(fn).replace('flow.record.selector.', '')}:{bad}",
                         f"{bad}: matching may modify an object that is not the matcher's own state", n,
                         key=f"R9.5:{qualname_of(fn).replace('flow.record.selector.', '')}:{bad}")
    ctx.ok("R9.5", "selector:stores", f"{n_scopes} functions scanned; attribute/item stores are confined to matcher state", rcm)

    # ------------------------------------------------------------------ R9.6
    ctx.rule("R9.6", "no branch of _eval handles Lambda / NamedExpr / Starred / list-set-dict comprehensions (they reach the final raise)")
    handled = set()
    for st in walk_no_nested(ev_fn):
        if isinstance(st, ast.If) and isinstance(st.test, ast.Call) and call_name(st.test) == "isinstance" and len(st.test.args) == 2:
            t = st.test.args[1]
            for e in (t.elts if isinstance(t, ast.Tuple) else [t]):
                d = dotted(e)
                if d and d.startswith("ast."):
                    handled.add(d[4:])
    bad = sorted(handled & FORBIDDEN_KINDS)
    ctx.check(not bad, "R9.6", "_eval:forbidden-kinds", f"_eval evaluates {bad}", ev_fn, f"handled kinds: {sorted(handled)}")
    call_branch = next((st for st in walk_no_nested(ev_fn) if isinstance(st, ast.If) and isinstance(st.test, ast.Call)
                        and call_name(st.test) == "isinstance" and norm(st.test.args[1]) == "ast.Call"), None)
    if call_branch is None:
        raise AnalysisError("R9.6: Call branch not found")


def whitelist_tree_roots_ok(prog) -> bool:
    """WHITELIST_TREE is built in a loop over WHITELIST that inserts each dotted part (so its top-level keys are exactly
    the roots of WHITELIST)."""
    m = prog.module("flow.record.whitelist")
    for st in m.tree.body:
        if isinstance(st, ast.For) and dotted(st.iter) == "WHITELIST":
            inner = [n for n in ast.walk(st) if isinstance(n, ast.For) and isinstance(n.iter, ast.Call)
                     and isinstance(n.iter.func, ast.Attribute) and n.iter.func.attr == "split"]
            seeds = [n for n in ast.walk(st) if isinstance(n, ast.Assign) and isinstance(n.value, ast.Name) and n.value.id == "WHITELIST_TREE"]
            stores = [n for n in ast.walk(st) if isinstance(n, ast.Subscript) and isinstance(n.ctx, ast.Store)]
            if inner and seeds and stores:
                # every entry is inserted: the outer loop has no way to skip one (`if name in ALIASES: continue`)
                outer_skips = [n for n in ast.walk(st) if isinstance(n, (ast.Continue, ast.Break))]
                guarded_seed = [n for n in st.body if isinstance(n, ast.If) and any(x in list(ast.walk(n)) for x in seeds)]
                if outer_skips or guarded_seed:
                    return False
                # ... and the list is complete when the tree is built: nothing adds to / rebinds WHITELIST after the building loop
                later = m.tree.body[m.tree.body.index(st) + 1:]
                for s2 in later:
                    for n in ast.walk(s2):
                        if isinstance(n, ast.Call) and isinstance(n.func, ast.Attribute) and n.func.attr in ("append", "extend", "insert", "__iadd__") and dotted(n.func.value) == "WHITELIST":
                            return False
                        if isinstance(n, (ast.Assign, ast.AugAssign)) and any(dotted(t) == "WHITELIST" or (isinstance(t, ast.Subscript) and dotted(t.value) == "WHITELIST")
                                                                                for t in (n.targets if isinstance(n, ast.Assign) else [n.target])):
                            return False
                return True
    return False


def classify_name(prog, sel, fn, name_arg, p_node, helper_names):
    """Where does the attribute NAME of a getattr come from?"""
    if isinstance(name_arg, ast.Attribute) and isinstance(name_arg.value, ast.Name) and name_arg.value.id == p_node and name_arg.attr in ("attr", "id"):
        return "expression"
    if isinstance(name_arg, ast.Attribute) and name_arg.attr == "name":
        # f.name with f from desc.getfields(...) / desc.fields
        base = name_arg.value
        if isinstance(base, ast.Name):
            src = loop_source(fn, base.id)
            if src is not None and any(isinstance(n, ast.Attribute) and n.attr in ("getfields", "fields", "get_all_fields") for n in ast.walk(src)):
                return "descriptor-field"
    if isinstance(name_arg, ast.Name):
        params = func_params(fn)
        if name_arg.id in params:
            # parameter of a helper: supplied by the caller (ultimately by the expression)
            return "caller-supplied"
        src = loop_source(fn, name_arg.id)
        if src is not None:
            txt = norm(src)
            if isinstance(src, ast.Name) and src.id in params:
                return "caller-supplied"
            if "_fields()" in txt or "getfields" in txt:
                return "descriptor-field"
            if txt in ("self._attrs",):
                return "matcher-attrs"
        return None
    return None


def loop_source(fn, var):
    """Expression the loop variable `var` iterates over (a local name is followed to its assignments, joined in a Tuple)."""
    params = func_params(fn)
    for n in ast.walk(fn):
        if isinstance(n, (ast.For, ast.comprehension)) and any(isinstance(t, ast.Name) and t.id == var for t in ast.walk(n.target)):
            it = n.iter
            if isinstance(it, ast.Name) and it.id not in params:
                vals = [st.value for st in ast.walk(fn) if isinstance(st, ast.Assign)
                        and any(isinstance(t, ast.Name) and t.id == it.id for t in st.targets)]
                if vals:
                    return ast.Tuple(elts=vals, ctx=ast.Load())
            return it
    return None


def refusal_holds(prog, module, facts, aliases, name_text) -> bool:
    """Some fact says `<X>.startswith(<C>)` is False with X == NAME or str(NAME) (after alias expansion) and C folding to '_' / '__'."""
    from ..core import expand_aliases

    for t, pol in facts:
        if pol:
            continue
        try:
            e = ast.parse(t, mode="eval").body
        except SyntaxError:
            continue
        if not (isinstance(e, ast.Call) and isinstance(e.func, ast.Attribute) and e.func.attr == "startswith" and len(e.args) == 1):
            continue
        recv = expand_aliases(e.func.value, aliases)
        rt = norm(recv)
        if rt not in (name_text, f"str({name_text})"):
            continue
        try:
            c = prog.fold(module, e.args[0])
        except NotConst:
            continue
        if c in ("_", "__"):
            return True
    return False


def attrs_guarded(prog) -> bool:
    """Every TypeMatcherInstance built in __getattr__ with an extended attribute chain is built only when the new name does not
    start with an underscore."""
    from ..core import expand_aliases, single_assign_aliases

    ga = prog.func("flow.record.selector.TypeMatcherInstance.__getattr__")
    cfg = CFG(ga)
    p = func_params(ga)[1]
    al = single_assign_aliases(ga)
    ok = True
    found = False
    for c in calls_in(ga):
        r = prog.resolve_expr(ga._module, c.func)
        if not (isinstance(r, DefRef) and r.qualname.endswith("TypeMatcherInstance")):
            continue
        third = c.args[2] if len(c.args) > 2 else get_kw_local(c, "attrs")
        if third is None:
            continue
        x = expand_aliases(third, al)
        if not any(isinstance(n, ast.Name) and n.id == p for n in ast.walk(x)):
            continue
        found = True
        node = cfg.node_of(c)
        facts = {(t, pol) for t, pol, _ in cfg.facts_at(node.id)}
        ok &= refusal_holds(prog, ga._module, facts, al, p)
    return ok and found


def get_kw_local(call, name):
    for k in call.keywords:
        if k.arg == name:
            return k.value
    return None
