"""Shared extraction of the pack / unpack branch structure of RecordPacker (used by C01, C02, C03, C13)."""
from __future__ import annotations

import ast
from dataclasses import dataclass, field
from typing import Any, Optional

from ..core import AnalysisError, DefRef, NotConst, Ref, call_name, calls_in, dotted, func_params, norm, walk_no_nested


@dataclass
class PackBranch:
    guard_cls: str  # resolved class tested with isinstance(obj, X)
    if_node: Any
    subtype_exprs: list = field(default_factory=list)  # [(assign stmt, subtype expr, payload expr)]
    extra_conds: dict = field(default_factory=dict)  # id(payload expr) -> [(test expr, polarity)] for payloads chosen by a conditional expression


@dataclass
class UnpackBranch:
    subtype_expr: Any
    subtype_value: Any
    if_node: Any
    role: Optional[str] = None


def resolve_cls_name(prog, module, e) -> str:
    r = prog.resolve_expr(module, e)
    if isinstance(r, DefRef):
        return r.qualname
    if isinstance(r, Ref):
        return r.name
    return norm(e)


def normalize_tuple(prog, module, e):
    """Canonical tuple display of a tuple-valued expression: `a[:K] + (b,)` and `(*a[:K], b)` are the same value; a slice
    bound given by a module constant is folded."""
    from ..core import copy_ast

    def fold_slice(sub):
        sub = copy_ast(sub)
        sl = sub.slice
        if isinstance(sl, ast.Slice) and sl.upper is not None and not isinstance(sl.upper, ast.Constant):
            try:
                v = prog.fold(module, sl.upper)
                if isinstance(v, int):
                    sl.upper = ast.Constant(value=v)
            except NotConst:
                pass
        return sub

    if isinstance(e, ast.Tuple):
        elts = []
        for x in e.elts:
            if isinstance(x, ast.Starred) and isinstance(x.value, ast.Subscript) and isinstance(x.value.slice, ast.Slice):
                elts.append(ast.Starred(value=fold_slice(x.value), ctx=ast.Load()))
            elif isinstance(x, ast.Starred) and isinstance(x.value, ast.Tuple):
                elts.extend(normalize_tuple(prog, module, x.value).elts)
            else:
                elts.append(x)
        return ast.copy_location(ast.Tuple(elts=elts, ctx=ast.Load()), e)
    if isinstance(e, ast.BinOp) and isinstance(e.op, ast.Add):
        l, r = normalize_tuple(prog, module, e.left), normalize_tuple(prog, module, e.right)
        if isinstance(l, ast.Tuple) and isinstance(r, ast.Tuple):
            return ast.copy_location(ast.Tuple(elts=list(l.elts) + list(r.elts), ctx=ast.Load()), e)
        return e
    if isinstance(e, ast.Subscript) and isinstance(e.slice, ast.Slice) and e.slice.lower is None and e.slice.step is None and e.slice.upper is not None:
        return ast.copy_location(ast.Tuple(elts=[ast.Starred(value=fold_slice(e), ctx=ast.Load())], ctx=ast.Load()), e)
    return e


def pack_branches(prog, pack_obj: ast.FunctionDef) -> list[PackBranch]:
    """The if/elif chain on isinstance(obj, K) of pack_obj with the `packed = SUBTYPE, payload` assignments of each branch."""
    module = pack_obj._module
    obj = func_params(pack_obj)[1]
    out = []
    chain = None
    from ..core import isinstance_alternatives

    for st in pack_obj.body:
        if isinstance(st, ast.If) and isinstance_alternatives(st.test, obj) is not None:
            chain = st
            break
    if chain is None:
        raise AnalysisError("pack_obj: isinstance dispatch chain on the object not found")
    # the variable that holds (sub-type, payload): what the function hands to self.pack(...) / returns
    packed_names = set()
    for c in calls_in(pack_obj):
        if isinstance(c.func, ast.Attribute) and c.func.attr == "pack" and c.args and isinstance(c.args[0], ast.Name):
            packed_names.add(c.args[0].id)
    # ... or hands over as a display of two locals, `self.pack((subtype, payload))`, each assigned in the branches
    split_names = None
    for c in calls_in(pack_obj):
        if isinstance(c.func, ast.Attribute) and c.func.attr == "pack" and c.args and isinstance(c.args[0], ast.Tuple) and len(c.args[0].elts) == 2 \
                and all(isinstance(x, ast.Name) for x in c.args[0].elts):
            split_names = (c.args[0].elts[0].id, c.args[0].elts[1].id)
    if not packed_names and split_names is None:
        for a in ast.walk(chain):
            if isinstance(a, ast.Assign) and isinstance(a.value, ast.Tuple) and len(a.value.elts) == 2 and isinstance(a.targets[0], ast.Name):
                packed_names.add(a.targets[0].id)

    def alternatives(e, conds):
        """(expr, conds) leaves of nested conditional expressions."""
        if isinstance(e, ast.IfExp):
            return alternatives(e.body, conds + [(e.test, True)]) + alternatives(e.orelse, conds + [(e.test, False)])
        return [(e, conds)]

    cur = chain
    while cur is not None:
        alts = isinstance_alternatives(cur.test, obj)
        if alts is None:
            raise AnalysisError(f"pack_obj: branch test {norm(cur.test)} is not an isinstance test on the object")
        names = [resolve_cls_name(prog, module, x) for x in alts]
        for nm in names:
            b = PackBranch(nm, cur)
            for s0 in cur.body:
                for n in ast.walk(s0):
                    if isinstance(n, ast.Assign) and isinstance(n.value, ast.Tuple) and len(n.value.elts) == 2 and \
                            any(isinstance(tt, ast.Name) and tt.id in packed_names for tt in n.targets):
                        payload = n.value.elts[1]
                        defs = []
                        if isinstance(payload, ast.Name):
                            # payload held in a local: one entry per definition inside the branch (each under its own conditions)
                            defs = [a for s1 in cur.body for a in ast.walk(s1) if isinstance(a, ast.Assign) and len(a.targets) == 1 and norm(a.targets[0]) == payload.id]
                        for stmt_, val in ([(a, a.value) for a in defs] or [(n, payload)]):
                            for leaf, conds in alternatives(val, []):
                                pl = normalize_tuple(prog, module, leaf)
                                b.subtype_exprs.append((stmt_, n.value.elts[0], pl))
                                if conds:
                                    b.extra_conds[id(pl)] = conds
            if split_names is not None and not b.subtype_exprs:
                sub_n, pay_n = split_names
                for par in [cur] + [x for s0 in cur.body for x in ast.walk(s0)]:
                    for attr in ("body", "orelse"):
                        blk = getattr(par, attr, None) if not (par is cur and attr == "orelse") else None
                        if not isinstance(blk, list):
                            continue
                        pays = [a for a in blk if isinstance(a, ast.Assign) and len(a.targets) == 1 and norm(a.targets[0]) == pay_n]
                        subs = [a for a in blk if isinstance(a, ast.Assign) and len(a.targets) == 1 and norm(a.targets[0]) == sub_n]
                        if pays and len(subs) == 1:
                            for a in pays:
                                for leaf, conds in alternatives(a.value, []):
                                    pl = normalize_tuple(prog, module, leaf)
                                    b.subtype_exprs.append((a, subs[0].value, pl))
                                    if conds:
                                        b.extra_conds[id(pl)] = conds
            out.append(b)
        nxt = cur.orelse
        cur = nxt[0] if len(nxt) == 1 and isinstance(nxt[0], ast.If) else None
        if nxt and cur is None:
            # a terminal else that only refuses (raise) is the "unpackable type" arm, not a default packing
            if not all(isinstance(x, ast.Raise) for x in nxt):
                raise AnalysisError("pack_obj: dispatch chain ends in a non-if else block (default packing?)")
    return out


ROLE_MARKERS = [
    # (role, predicate over the branch body)
    ("datetime", lambda body, prog, m: any(isinstance(c, ast.Call) and (resolve_cls_name(prog, m, c.func).endswith("fieldtypes.datetime")) for c in body)),
    ("varint", lambda body, prog, m: any(isinstance(c, ast.Call) and norm(c.func) == "int.from_bytes" for c in body)),
    ("grouped", lambda body, prog, m: any(isinstance(c, ast.Call) and resolve_cls_name(prog, m, c.func).endswith("base.GroupedRecord") for c in body)),
    ("descriptor", lambda body, prog, m: any(isinstance(c, ast.Call) and resolve_cls_name(prog, m, c.func).endswith("RecordDescriptor._unpack") or
                                             isinstance(c, ast.Call) and resolve_cls_name(prog, m, c.func).endswith("base.RecordDescriptor") for c in body)),
    ("record", lambda body, prog, m: any(isinstance(c, ast.Call) and isinstance(c.func, ast.Attribute) and c.func.attr == "_unpack"
                                         and "recordType" in norm(c.func) for c in body)),
]


def unpack_branches(prog, unpack_obj: ast.FunctionDef):
    """(subtype variable, [UnpackBranch]) for the `if subtype == CONST:` statements of unpack_obj."""
    module = unpack_obj._module
    out = []
    var = None
    for st in walk_no_nested(unpack_obj):
        if isinstance(st, ast.If) and isinstance(st.test, ast.Compare) and len(st.test.ops) == 1 and isinstance(st.test.ops[0], ast.Eq) \
                and isinstance(st.test.left, ast.Name):
            try:
                v = prog.fold(module, st.test.comparators[0])
            except NotConst:
                continue
            if not isinstance(v, int):
                continue
            var = st.test.left.id
            b = UnpackBranch(st.test.comparators[0], v, st)
            body = [n for s0 in st.body for n in ast.walk(s0)]
            for role, pred in ROLE_MARKERS:
                if pred(body, prog, module):
                    b.role = role
                    break
            out.append(b)
    # a sub-type handled as the fall-through tail (`if subtype != K: raise` ... code for K): the statements reachable when
    # subtype == K and under no other sub-type form its branch
    from .. import logic
    from ..cfg import CFG

    seen_vals = {b.subtype_value for b in out}
    tails = []
    for cmp_ in [n for n in ast.walk(unpack_obj) if isinstance(n, ast.Compare) and len(n.ops) == 1 and isinstance(n.ops[0], ast.NotEq) and isinstance(n.left, ast.Name)]:
        try:
            v = prog.fold(module, cmp_.comparators[0])
        except NotConst:
            continue
        if isinstance(v, int) and v not in seen_vals and (var is None or cmp_.left.id == var):
            tails.append((cmp_, v))
            var = var or cmp_.left.id
    if tails:
        cfg = CFG(unpack_obj)
        all_vals = sorted(seen_vals | {v for _, v in tails})

        def reach_for(k):
            def valuation(atom):
                try:
                    e = ast.parse(atom, mode="eval").body
                except SyntaxError:
                    return None
                if isinstance(e, ast.Compare) and len(e.ops) == 1 and isinstance(e.ops[0], ast.Eq):
                    for a, b_ in ((e.left, e.comparators[0]), (e.comparators[0], e.left)):
                        if isinstance(a, ast.Name) and a.id == var:
                            try:
                                return prog.fold(module, b_) == k
                            except NotConst:
                                return None
                return None
            return logic.reachable_assuming(cfg, cfg.entry, valuation)

        reach = {k: reach_for(k) for k in all_vals + [None]}
        for cmp_, k in tails:
            others = set().union(*[reach[o] for o in all_vals + [None] if o != k])
            own = reach[k] - others
            stmts = [cfg.nodes[i].ast for i in sorted(own) if cfg.nodes[i].ast is not None and isinstance(cfg.nodes[i].ast, ast.stmt)]
            top = [st for st in stmts if not any(st is not o and any(x is st for x in ast.walk(o)) for o in stmts)]
            top.sort(key=lambda n: getattr(n, "_ord", n.lineno))
            if not top:
                continue
            syn = ast.If(test=ast.Compare(left=ast.Name(id=var, ctx=ast.Load()), ops=[ast.Eq()], comparators=[cmp_.comparators[0]]), body=top, orelse=[])
            ast.copy_location(syn, top[0])
            syn._module = module
            syn._synthetic = True
            b = UnpackBranch(cmp_.comparators[0], k, syn)
            body = [n for s0 in top for n in ast.walk(s0)]
            for role, pred in ROLE_MARKERS:
                if pred(body, prog, module):
                    b.role = role
                    break
            out.append(b)
    return var, out


PACK_ROLE_OF_CLASS = {
    "datetime.datetime": "datetime", "builtins.int": "varint", "flow.record.base.GroupedRecord": "grouped",
    "flow.record.base.Record": "record", "flow.record.base.RecordDescriptor": "descriptor",
}


def packers(prog):
    return prog.cls("flow.record.packer.RecordPacker")


def check_typedlist_pack(ctx, rule: str) -> None:
    """typedlist does not override list's in-place mutators, so a list field can hold raw Python values (append, extend, +=, item
    assignment); the packed form is well-defined only if `_pack` brings every element to the element type first. Decided on
    typedlist._pack: every value put into the result is `X._pack()` with X of the element type - `self.__type__(f)` or a name for
    which `isinstance(f, self.__type__)` holds there - or, for lists of records, the element itself under `self.__type__ == record`."""
    from .. import logic
    from ..cfg import CFG

    prog = ctx.prog
    tl = prog.cls("flow.record.fieldtypes.typedlist")
    ctx.use(tl._module)
    methods = prog.methods_of(tl)
    mutators = ("append", "extend", "insert", "__setitem__", "__iadd__")
    converting = [m for m in mutators if m in methods and methods[m]._parent is tl]
    ctx.rule(rule, "typedlist._pack: every element that is written is the packed form of a value of the element type (raw values added in place are "
                   "converted first); records inside record[] are handed over unpacked")
    if len(converting) == len(mutators):
        ctx.check(True, rule, "typedlist:mutators-convert", "", tl, "all in-place mutators are overridden")
        return
    pk = ctx.anchor_func("flow.record.fieldtypes.typedlist._pack")
    cfg = CFG(pk)
    # the values collected: result.append(E) / [E for ...] / list(self) ...
    rets = [r for r in walk_no_nested(pk) if isinstance(r, ast.Return)]
    collected = []  # (expr E, node where it is evaluated, source description)
    for r in rets:
        v = r.value
        if isinstance(v, ast.Name):
            for c in calls_in(pk):
                if isinstance(c.func, ast.Attribute) and c.func.attr == "append" and norm(c.func.value) == v.id and len(c.args) == 1:
                    collected.append((c.args[0], c))
            for st in walk_no_nested(pk):
                if isinstance(st, ast.Assign) and len(st.targets) == 1 and norm(st.targets[0]) == v.id and not (isinstance(st.value, ast.List) and not st.value.elts):
                    collected.append((st.value, st))
        else:
            collected.append((v, r))
    ctx.floor(rule, "values collected by typedlist._pack", len(collected), 1)

    from ..core import expand_aliases, single_assign_aliases
    flags = {k: v for k, v in single_assign_aliases(pk).items() if isinstance(v, (ast.Compare, ast.BoolOp, ast.UnaryOp))}

    def premises(at_node, extra):
        # a boolean local assigned once from a condition (`keep = self.__type__ == record`) stands for that condition
        return [(expand_aliases(e, flags), pol) for e, pol in logic.facts_as_premises(cfg.facts_at(at_node.id)) + extra]

    def element_typed(x, at_node, extra):
        """Is expression x a value of the element type at that point?"""
        if isinstance(x, ast.Call) and norm(x.func) == "self.__type__":
            return True
        prem = premises(at_node, extra)
        if isinstance(x, ast.Name):
            if logic.implies(prem, logic.parse(f"isinstance({x.id}, self.__type__)")):
                return True
            # x = self.__type__(f) on every reaching definition
            defs = [cfg.nodes[d].ast for d in cfg.reaching_defs(x.id).get(at_node.id, set()) if cfg.nodes[d].ast is not None]
            if defs and all(isinstance(d, ast.Assign) and isinstance(d.value, ast.Call) and norm(d.value.func) == "self.__type__" for d in defs):
                return True
        if isinstance(x, ast.IfExp):
            return element_typed(x.body, at_node, extra + [(x.test, True)]) and element_typed(x.orelse, at_node, extra + [(x.test, False)])
        return False

    def judge(e, site, extra):
        at_node = cfg.node_of(site)
        if isinstance(e, (ast.ListComp, ast.GeneratorExp)):
            cond = [(c, True) for g in e.generators for c in g.ifs]
            return judge(e.elt, site, extra + cond)
        if isinstance(e, ast.IfExp):
            a = judge(e.body, site, extra + [(e.test, True)])
            b = judge(e.orelse, site, extra + [(e.test, False)])
            return a if a is not True else b
        if isinstance(e, ast.Call) and isinstance(e.func, ast.Attribute) and e.func.attr == "_pack" and not e.args:
            return True if element_typed(e.func.value, at_node, extra) else f"`{norm(e)}`: `{norm(e.func.value)}` need not be of the element type there"
        if isinstance(e, ast.Name):
            defs = [cfg.nodes[d].ast for d in cfg.reaching_defs(e.id).get(at_node.id, set()) if cfg.nodes[d].ast is not None]
            if defs and all(isinstance(d, ast.Assign) and len(d.targets) == 1 and isinstance(d.targets[0], ast.Name) for d in defs) and not any(d is site for d in defs):
                for d in defs:
                    res = judge(d.value, d, [])
                    if res is not True:
                        return res
                return True
        # the element itself (or the list itself): only for lists of records
        prem = premises(at_node, extra)
        if logic.implies(prem, logic.parse("self.__type__ == record")):
            return True
        return f"`{norm(e)[:60]}` is written as it is although `self.__type__ == record` does not hold there"

    for e, site in collected:
        res = judge(e, site, [])
        ctx.check(res is True, rule, f"typedlist._pack:{norm(e)[:40]}", (res if res is not True else "") + ": a value that was added to the list in place (append, +=, item assignment) is "
                  "written in its raw form, which is not the wire form of the element type (and differs from the packed form of an equal, rebuilt record)", site,
                  "X._pack() with X of the element type", key=f"{rule}:typedlist._pack:unconverted-element")
