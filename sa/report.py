"""Obligation bookkeeping, known findings, evidence files, exit codes."""
from __future__ import annotations

import json
import os
import time
from typing import Any, Optional

from .core import AnalysisError, Module, Program, qualname_of

VERIF = os.path.dirname(os.path.dirname(os.path.abspath(__file__)))
KNOWN_FINDINGS = os.path.join(VERIF, "known_findings.json")
EVIDENCE_DIR = os.path.join(VERIF, "evidence")


class Ctx:
    def __init__(self, prog: Program, prop: str, tier: str = "quick", seed: int = 0):
        self.prog = prog
        self.prop = prop
        self.tier = tier
        self.seed = seed
        self.t0 = time.time()
        self.obligations: list[dict] = []
        self.violations: list[dict] = []
        self.infos: list[dict] = []
        self.samples: list[Any] = []
        self.trusted: list[str] = []
        self.assumptions: list[str] = []
        self.floors: list[dict] = []
        self.unmet_floors: list[str] = []
        self.unresolved: list[str] = []
        self.files_used: set[str] = set()
        self.rule_texts: dict[str, str] = {}
        self.extra: dict[str, Any] = {}

    # -- helpers ---------------------------------------------------------------------
    def loc(self, node) -> tuple[str, int]:
        m: Optional[Module] = getattr(node, "_module", None)
        if m is not None:
            self.files_used.add(m.relpath)
            return m.relpath, getattr(node, "lineno", 0)
        return "?", 0

    def use(self, *modules):
        for m in modules:
            if isinstance(m, str):
                m = self.prog.module(m)
            self.files_used.add(m.relpath)

    def rule(self, rule_id: str, text: str):
        self.rule_texts[rule_id] = text

    def ok(self, rule: str, construct: str, detail: str = "", node=None):
        f, l = self.loc(node) if node is not None else ("", 0)
        self.obligations.append({"rule": rule, "construct": construct, "ok": True, "detail": detail, "file": f, "line": l})

    def fail(self, rule: str, construct: str, msg: str, node=None, key: Optional[str] = None):
        f, l = self.loc(node) if node is not None else ("", 0)
        k = key or f"{rule}:{construct}"
        rec = {"rule": rule, "construct": construct, "ok": False, "detail": msg, "file": f, "line": l, "key": k}
        self.obligations.append(rec)
        self.violations.append(rec)

    def check(self, cond: bool, rule: str, construct: str, msg_fail: str, node=None, detail_ok: str = "", key=None):
        if cond:
            self.ok(rule, construct, detail_ok, node)
        else:
            self.fail(rule, construct, msg_fail, node, key)
        return cond

    def info(self, rule: str, msg: str, node=None):
        f, l = self.loc(node) if node is not None else ("", 0)
        self.infos.append({"rule": rule, "msg": msg, "file": f, "line": l})

    def floor(self, rule: str, what: str, count: int, minimum: int):
        self.floors.append({"rule": rule, "what": what, "count": count, "minimum": minimum})
        if count < minimum:
            # deferred: the remaining rules still run; finish() turns an unmet floor into ANALYSIS-ERROR (exit 2) unless a
            # real violation was found as well (then the violation is reported, exit 1)
            self.unmet_floors.append(
                f"{rule}: matched {count} {what}, below the floor of {minimum} confirmed by hand - the rule would pass vacuously")

    def sample(self, obj):
        if len(self.samples) < 40:
            self.samples.append(obj)

    def trust(self, text: str):
        if text not in self.trusted:
            self.trusted.append(text)

    def assume(self, text: str):
        if text not in self.assumptions:
            self.assumptions.append(text)

    def import_rule(self, sibling_prop: str, rule_id: str, as_rule: str, why: str, constructs=None):
        """Run the rule module of another property on the same program and take over what its rule `rule_id` established - obligations,
        violations (keys re-labelled `as_rule:...`), floors and the rule text - under this check's rule id `as_rule`. Used where one piece of code
        carries two properties (the split writer is part of rdump's contract AND of the writers'), so that a change there is named by both."""
        import importlib

        mod = importlib.import_module(f"sa.rules.{sibling_prop.lower()}")
        sub = Ctx(self.prog, sibling_prop.upper(), self.tier, self.seed)
        mod.run(sub)
        self.rule(as_rule, f"[= {rule_id} of {sibling_prop.upper()}] {why} - " + sub.rule_texts.get(rule_id, ""))
        n = 0
        for ob in sub.obligations:
            if ob["rule"] != rule_id or (constructs is not None and not any(ob["construct"].startswith(c) for c in constructs)):
                continue
            rec = dict(ob)
            rec["rule"] = as_rule
            if not rec["ok"]:
                k = rec.get("key") or f"{rule_id}:{rec['construct']}"
                rec["key"] = as_rule + k[len(rule_id):] if k.startswith(rule_id) else f"{as_rule}:{k}"
                self.violations.append(rec)
            self.obligations.append(rec)
            n += 1
        for fl in sub.floors:
            if fl["rule"] == rule_id:
                self.floors.append(dict(fl, rule=as_rule))
        for u in sub.unmet_floors:
            if u.startswith(rule_id + ":"):
                self.unmet_floors.append(as_rule + u[len(rule_id):])
        self.files_used |= sub.files_used
        self.floor(as_rule, f"obligations taken over from {rule_id}", n, 1)

    def anchor_func(self, qualname: str):
        n = self.prog.func(qualname)
        self.loc(n)
        return n

    def anchor_cls(self, qualname: str):
        n = self.prog.cls(qualname)
        self.loc(n)
        return n


def load_known() -> list[dict]:
    if not os.path.exists(KNOWN_FINDINGS):
        return []
    with open(KNOWN_FINDINGS) as f:
        data = json.load(f)
    return data.get("findings", [])


def finish(ctx: Ctx, explanation: str, rule_summary: str, evidence_path: Optional[str] = None, write=True) -> int:
    """Print the report, write evidence + replay, return the exit code."""
    known = [k for k in load_known() if k.get("property") == ctx.prop and k.get("status") == "known"]
    known_keys = {}
    for k in known:
        for key in ([k["key"]] if "key" in k else []) + list(k.get("keys", [])):
            known_keys[key] = k
    printed_known = []
    unlisted = []
    for v in ctx.violations:
        if v["key"] in known_keys:
            k = known_keys[v["key"]]
            if not any(p is k for p in printed_known):
                printed_known.append(k)
        else:
            unlisted.append(v)
    for i in ctx.infos:
        print(f"info: {i['file']}:{i['line']} rule={i['rule']} {i['msg']}")
    seen_keys = {v["key"] for v in ctx.violations}
    for k in printed_known:
        ks = ([k["key"]] if "key" in k else []) + list(k.get("keys", []))
        hit = [x for x in ks if x in seen_keys]
        print(f"KNOWN-FINDING: property={ctx.prop} id={k.get('id', '')} {k['what']} [{len(hit)}/{len(ks)} listed construct(s) reproduced; input: {k.get('input', '')}]")
    for k in known:
        ks = ([k["key"]] if "key" in k else []) + list(k.get("keys", []))
        if not any(x in seen_keys for x in ks):
            print(f"note: known finding {k.get('id', ks[0])} was not reproduced on this tree (it may have been repaired)")
    replay_path = os.path.join(EVIDENCE_DIR, f"{ctx.prop}.replay.json")
    for v in unlisted:
        print(f"{v['file']}:{v['line']} rule={v['rule']} construct={v['construct']} :: {v['detail']}")
    wall = time.time() - ctx.t0
    n_obl = len(ctx.obligations)
    n_ok = sum(1 for o in ctx.obligations if o["ok"])
    distinct = len({(o["rule"], o["construct"]) for o in ctx.obligations})
    per_rule: dict[str, dict] = {}
    for o in ctx.obligations:
        r = per_rule.setdefault(o["rule"], {"obligations": 0, "discharged": 0})
        r["obligations"] += 1
        r["discharged"] += 1 if o["ok"] else 0
    files = []
    for rel in sorted(ctx.files_used):
        m = ctx.prog.by_relpath.get(rel)
        if m is not None:
            files.append({"path": rel, "sha256": m.sha256})
    samples = list(ctx.samples)
    for o in ctx.obligations:
        if len(samples) >= 12:
            break
        samples.append({k: o[k] for k in ("rule", "construct", "ok", "detail", "file", "line")})
    evidence = {
        "property_id": ctx.prop,
        "tier": ctx.tier,
        "seed": ctx.seed,
        "level": "other",
        "coverage": {
            "explanation": explanation,
            "obligations": n_obl,
            "discharged": n_ok,
            "evaluations": n_obl,
            "distinct_nontrivial": distinct,
            "rule": rule_summary,
            "samples": samples,
            "exhaustive": True,
            "trusted_base": ctx.trusted,
            "rules": {r: dict(per_rule.get(r, {"obligations": 0, "discharged": 0}), text=t) for r, t in ctx.rule_texts.items()},
            "rules_without_text": {r: v for r, v in per_rule.items() if r not in ctx.rule_texts},
            "floors": ctx.floors,
            "files": files,
            "modules_parsed": len(ctx.prog.modules),
            "root": ctx.prog.root,
            "unresolved_calls": sorted(set(ctx.unresolved))[:60],
            "informational": ctx.infos[:60],
            "known_findings_printed": [k.get("id") or k.get("key") for k in printed_known],
            "unlisted_violations": [{k: v[k] for k in ("rule", "construct", "detail", "file", "line", "key")} for v in unlisted],
            **ctx.extra,
        },
        "assumptions": ctx.assumptions,
        "wall_s": round(wall, 3),
        "violations": len(unlisted),
    }
    if write:
        os.makedirs(EVIDENCE_DIR, exist_ok=True)
        path = evidence_path or os.path.join(EVIDENCE_DIR, f"{ctx.prop}.json")
        tmp = path + ".tmp"
        with open(tmp, "w") as f:
            json.dump(evidence, f, indent=1, default=str)
        os.replace(tmp, path)
        if unlisted:
            with open(replay_path, "w") as f:
                json.dump([{k: v[k] for k in ("rule", "construct", "file", "line", "detail", "key")} for v in unlisted], f, indent=1)
        elif os.path.exists(replay_path):
            os.remove(replay_path)
    print(
        f"{ctx.prop} tier={ctx.tier}: {n_ok}/{n_obl} obligations discharged over {distinct} distinct constructs, "
        f"{len(printed_known)} known finding(s), {len(unlisted)} unlisted violation(s), {wall:.2f}s"
    )
    if unlisted:
        for u in ctx.unmet_floors:
            print(f"note: {u}")
        print(f"VIOLATION property={ctx.prop} replay={replay_path}")
        return 1
    if ctx.unmet_floors:
        for u in ctx.unmet_floors:
            print(f"ANALYSIS-ERROR property={ctx.prop} {u}")
        return 2
    return 0
