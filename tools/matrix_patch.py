#!/venv/bin/python
"""Development tool: re-run all checks on the listed seeded changes / twins only and merge the rows into seeded/MATRIX.json and
twins/MATRIX.json (tools/seeded_matrix.py rewrites the whole file).  Usage: tools/matrix_patch.py ID..."""
import json
import os
import sys
from concurrent.futures import ThreadPoolExecutor

sys.path.insert(0, os.path.dirname(os.path.abspath(__file__)))
import seeded_matrix as sm  # noqa: E402


def main():
    ids = sys.argv[1:]
    props = sm.built_props()
    for base in (sm.SEEDED, sm.TWINS):
        mine = [i for i in ids if os.path.isdir(os.path.join(base, i))]
        if not mine:
            continue
        path = os.path.join(base, "MATRIX.json")
        m = json.load(open(path))
        with ThreadPoolExecutor(max_workers=16) as ex:
            for sid, res in ex.map(lambda t: sm.run_one(t, props, base), mine):
                m[sid] = res
                noisy = {p: v["rc"] for p, v in res.items() if isinstance(v, dict) and v.get("rc") != 0}
                print(sid, noisy or "silent")
        with open(path, "w") as f:
            json.dump(m, f, indent=1, sort_keys=True)


if __name__ == "__main__":
    main()
