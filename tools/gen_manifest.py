#!/venv/bin/python
"""Regenerate /verif/MANIFEST.json from the table below (kept as code so the manifest stays valid at all times)."""
import json
import os

HERE = os.path.dirname(os.path.dirname(os.path.abspath(__file__)))

BASELINE_OFF = ("cd /repo && /venv/bin/python -m pytest -ra -q -p no:cacheprovider --timeout=900 "
                "--continue-on-collection-errors --junitxml=/tmp/flow_record_baseline.junit.xml")

LEVEL_TEXT = ("Static analysis of /repo's current source (ast brought into a canonical form - unknown helpers inlined, trivial aliases "
              "substituted -, resolved symbols, constant folding, per-function CFG with dominators, branch facts compared as propositional "
              "formulas, symbolic text structure, provenance / shape evaluation). Decides the named structural clauses of the property for ALL "
              "inputs at once - each clause is a necessary condition whose violation yields a concrete failing input - and "
              "does not decide the value-level behaviour (byte-exact encodings, arithmetic, third-party codecs), which no "
              "sound static argument in reach can bound. ")

CHECKS = {
    # id: (technique, what is decided, trusted base / assumptions, design section)
    "C06": ("regex->automaton language inclusion; provenance (taint) evaluation of the exec'd template; dominator queries; who-may-call inventory",
            "validation language included in the ASCII identifier grammars (exact, with counter-example); every source of the "
            "exec'd class text is a literal or a validated name and never a field type name; whitelist test dominates import/getattr; "
            "inventory of exec/eval/compile/import sites",
            "CPython re / str.format semantics as modelled (automaton model cross-checked against re at start-up); "
            "validated names are str", "DESIGN.md 3/C06"),
    "C01": ("sibling-agreement tables between encoder and decoder: sub-type sets, payload arities, per-type _pack/_unpack arity and discriminators; "
            "template-loop provenance; struct-format folding; AST check of generated code fragments",
            "emitted == handled sub-types; payload arity agreement per sub-type; _pack/_unpack agreement per field type; flavour tags; one "
            "ordered source for slots/args/unpack; frame prefix format/size/len-of-body agreement; generated _unpack guards with `is not None`; "
            "_pack excludes only by explicit argument",
            "msgpack round-trips the shapes it is given", "DESIGN.md 3/C01"),
    "C02": ("constant folding of every format fact at its point of use on both sides against a format-facts table; dataflow walk of the identifier hash; "
            "symbolic (linear) evaluation of the compatibility truncation",
            "ext type, sub-types by role, length format, magic, msgpack options and hooks, varint byte order; hash construction and input order; "
            "reserved-field order; header depth; compatibility branch keeps declared+reserved values with the original last value; one value per slot",
            "the format-facts table transcribes the published format", "DESIGN.md 3/C02"),
    "C03": ("registry ownership (effect) analysis; dominance of emit-if-new over packing; event-handler chain resolution; injectivity of the hash input structure; branch facts of reader registration",
            "per-instance grow-only registries; emit-before-use for the record and every grouped member; register(notify) reaches the writer's descriptor "
            "write; pack precedes the frame write; identifier injectivity (known finding F03); readers register every descriptor frame unconditionally; GroupedRecord.descriptors is a re-iterable container",
            "msgpack/json call the default hook depth-first", "DESIGN.md 3/C03"),
    "C04": ("CFG of the frame loop: generator/yield placement, exception-handler placement rule, raise-site inventory, def-use of the decoder's input, write ordering; wrapper-layer rule for decompressors",
            "lazy in-order delivery; only EOFError swallowed, outside the loop; exact-boundary prefix test; body = fresh read(size); writer builds the body "
            "before writing prefix+body; no buffering layer around raising decompressors; no handler on the write path swallows an I/O error",
            "msgpack rejects truncated bodies; decompressors raise on truncation", "DESIGN.md 3/C04"),
    "C05": ("who-may-call inventory of raw-store primitives; path enumeration to the slot store; interval reading of range guards; "
            "store-before-raise path rule with a no-throw refinement; dominator queries",
            "slots written only through Record.__setattr__; every path to the store converts or carries a legitimate bypass; "
            "bounded integer constructors accept exactly [0, 2^N-1]; setters never store before a reachable raise; naive->UTC "
            "dominates every return of datetime.__new__; typed lists convert every non-instance element; every value returned by datetime.__new__ is aware on all paths (must-dataflow), no local-time-sensitive call on a possibly naive value, component-wise copies keep fold; typedlist never returns its input unconverted; range guards test the argument",
            "constructors of field types are trusted to return values of their type; plain name-to-attribute assignments cannot raise",
            "DESIGN.md 3/C05"),
    "C10": ("sibling agreement over all reader classes: propositional implication check of branch facts at every yield; state re-initialisation (effect) analysis of the matcher; persistent-write scan of the match path; branch analysis of make_selector",
            "selector normalised or delegated; every record yield implied-guarded by `no selector or selector.match(X)` for the same X; matcher state rebuilt per "
            "match; no module/class-level state written while matching; make_selector never changes the engine of a given selector object unless asked",
            "helpers are deterministic; readers of uninstalled third-party adapters are analysed but info-only", "DESIGN.md 3/C10"),
    "C11": ("codec table agreement (extension table vs. sniffing table, resolved to libraries); constant folding of magics and slice lengths; syntactic control dependence and dominance on the read paths; refusal-site analysis",
            "same library per codec on both tables, HAS_* flags belong to it; magics are the real signatures compared with slices of their own length; sniffing reached on every "
            "read path and the sniffed object is the one used; undetermined input refused; strict header test; extension table names existing adapters",
            "file signatures of the formats", "DESIGN.md 3/C11"),
    "C12": ("class-hierarchy analysis of call shapes vs. override signatures; argument-identity of the eq/hash projections; shape evaluation of all _pack methods vs. normaliser depth; pairing rule on the context manager; alias/mutation scan of the configuration object",
            "overrides accept the calls made on arbitrary Records; __eq__/__hash__ use the same _pack projection reading the global at call time; hash "
            "normaliser closed over all packed shapes; __eq__ total; scoped override restored on all exits and the saved value cannot be mutated in place; __eq__ decides only by the projection or the non-Record refusal; every _pack on the hash path uses the projection arguments",
            "tuple hashing; generated classes inherit Record's methods", "DESIGN.md 3/C12"),
    "C13": ("must-pass-through on the timestamp constructor; who-may-read closure of the display setting; branch-fact check on every text conversion inside serialisers; form table of the binary encoder; float-epoch scan",
            "naive->UTC dominates returns; display setting read only by __str__/__repr__; no serialiser renders a possible timestamp with str()/repr()/format; binary forms are "
            "the 7 components / ISO text under a tzinfo test; SQLite/JSON isoformat, Avro timestamp-micros with integer arithmetic; no float seconds on storage paths; no astimezone()/fromtimestamp()/now() on a possibly naive value in the field constructor; component-wise copies keep fold; no float seconds (timestamp/total_seconds) in serialisers",
            "isoformat/fromisoformat and component tuples are lossless", "DESIGN.md 3/C13"),
    "C14": ("encoder/decoder table symmetry decided from constructors' isinstance dispatch; None-exclusion branch facts at every per-field conversion; line-discipline and option wiring checks; reaching definitions of the fallback descriptor",
            "inverse conversions exist for scalar and list forms of types whose constructor does not accept the JSON form; conversions never run on None; one document per "
            "line, markers only under pack_descriptors; boolean normalisation; plain-JSON fallback derives from the current line only",
            "json.dumps hook/newline behaviour", "DESIGN.md 3/C14"),
    "C15": ("effect analysis of the composition functions; reaching definitions at every field read; symbolic sequence evaluation of extend_record under both flag values; guard facts at first-wins stores",
            "inputs unmodified; field values read only from original inputs; value maps in (record,*others) order resp. exact reverse under replace, descriptors in original "
            "order with the same flag; first-wins guards in merge and grouped records; timestamp expansion argument order and composition; no state-dependent skip of a whole descriptor in the merge; pass-through only without datetime fields",
            "ChainMap priority; _asdict returns a fresh dict", "DESIGN.md 3/C15"),
    "C16": ("handler-coverage rule over the per-source try; loop-path and control-dependence checks in main; symbolic slice bounds; reaching definitions of the rewriter's descriptor",
            "per-source isolation with a catch-all covering open/iterate/close; every sliced record reaches the writer unless --list; slice = (skip, skip+count) over the filtered "
            "stream; writer finalised in finally; projection derived from the record's own descriptor on every call",
            "weakest assurance of the set: skip/count arithmetic, option interaction and cross-writer equality are not decided", "DESIGN.md 3/C16"),
    "C17": ("pairing/typestate over all writer classes: flush-effect sets vs. close(), guard-and-clear of every release, __exit__/__del__ shape, ordering in split and rotation, injectivity of the part suffix, clock provenance of the rotation stamp",
            "close() subsumes flush() (known finding F17b: empty stream/avro output), idempotent close, flush-then-close on exit, write-before-count and >= in split, padded non-truncating "
            "suffix, rotate-before-open with a clock stamp and no overwrite of an existing target; stdout detection of the split writer consults netloc and path; the rename target is known not to exist",
            "closing a file object flushes it", "DESIGN.md 3/C17"),
    "C18": ("SQL string flattening with slot classification (quoted identifier / type-table slot / bound value); def-use of batch_size; transaction typestate; SQLite affinity computation over every emitted column type; WHERE-clause conjunct analysis",
            "identifiers quoted, values bound; batch size only drives commit cadence; explicit transaction cycle, commit before close; DDL before insert keyed by the whole descriptor; "
            "affinities keep the Python form (TEXT fallback at both sites); every table enumerated; update_descriptor_columns cannot return before the field names were compared",
            "SQLite affinity rules", "DESIGN.md 3/C18"),
    "C19": ("dominance of refusal guards; type-table agreement with shape evaluation; embedding/detection shape agreement; value-flow check of the datum handed to fastavro",
            "unmapped type and mixed descriptors refused (whole-descriptor comparison); primitives map back; descriptor embedded as json.dumps(_pack()) and rebuilt through RecordDescriptor; "
            "datum is _packdict() without float-seconds conversion; integer microsecond reconstruction; the writer's schema is descriptor_to_schema(<its own descriptor>)",
            "fastavro validates datums against the schema", "DESIGN.md 3/C19"),
    "C20": ("sink rule on encode()/open() of record-derived text; control dependence of header/row writes on the run-change test; def-before-use of the line format; mapping check of the text template",
            "surrogateescape on every text sink; CSV header on every run change with default quoting and one dict for header and row; line format defined whenever the item loop runs, one "
            "line per field; text template applied to all fields with missing keys tolerated",
            "repr/json ASCII escaping; csv default quoting", "DESIGN.md 3/C20"),
    "C07": ("AST-field coverage matrix of the interpreter against ast.<K>._fields; operator-table comparison; delegation shape of special methods",
            "every semantically relevant field of every handled AST node kind is read and list fields are consumed entirely; "
            "operator/comparator tables map each ast class to Python's operator; membership lambdas pass the container first; "
            "List/Tuple build the same container type; Type-matcher special methods exist and delegate to the matching operator; "
            "compiled engine evaluates the unchanged text in eval mode with the shared namespace; Type.<t> skips a value only when it is the missing-attribute sentinel",
            "ast._fields of the running interpreter; the reference operator map", "DESIGN.md 3/C07"),
    "C08": ("exhaustive static dispatch table: abstract evaluation of comparison methods on a foreign operand + Python data-model dispatch rules",
            "outcome of every cell operator x position x operand kind x engine computed from source (1024+ cells), sentinel "
            "provenance (3-arg getattr on all paths), sentinel special methods, BinOp guard, helpers skip missing fields; helper loops skip only the missing field (control returns to the loop header); __getattr__ of record classes raises only AttributeError",
            "the data-model table for builtins (printed in evidence); the table was validated cell-by-cell against a dynamic "
            "sweep at development time (tools/c08_dynamic.py, 0 disagreements on the pinned and the repaired tree)", "DESIGN.md 3/C08"),
    "C09": ("invocation-site inventory; dominator/branch-fact queries on the interpreter; namespace (bind vs vet) set comparison; effect scan",
            "single arbitrary-call site; predicate-or-raise dominates it; resolve_attr_path total and exact; predicate reads no "
            "bindable container; generator-variable guard covers every vetted root; every expression-named getattr dominated by a "
            "dunder refusal; no stores outside matcher state; no callable-creating syntax handled",
            "helpers and field-type constructors are trusted with hostile arguments", "DESIGN.md 3/C09"),
}

# clauses added after the fifth blind round (appended to "what is decided")
EXTRA = {
    "C01": "every element typedlist._pack writes is the packed form of a value of the element type; flavoured decoders (path, command) construct the class the stored tag names; readers register every descriptor frame (taken over from C03); a validating setter writes its attributes together (taken over from C05); descriptors precede the records that need them (taken over from C03)",
    "C02": "every element typedlist._pack writes is the packed form of a value of the element type; a descriptor frame reaches the constructor unchanged; no _pack caches its result on the value; a grouped record's members and descriptors are appended as pairs (taken over from C03); frame = length prefix + exactly that body (taken over from C01); generated decoders never truth-test a value (taken over from C05)",
    "C03": "JSON lines are decoded through the packer's object_hook (nested records); a grouped record's members and descriptors are appended as pairs",
    "C04": "no buffering layer is put around an object that can be a raising decompressor, anywhere in the package; the decoder receives fp.read(<decoded size>) wherever that is written; the descriptor handler writes its frame at once (taken over from C03)",
    "C05": "every initialiser of a typed list's storage is a converted one; state written by a validating setter has no other writer; generated code never truth-tests a generic field value; no conversion cache keyed by equality of the raw input; the fieldtype cache outlives the whitelist; a validating setter writes its attributes together",
    "C06": "every return of fieldtype() is under the whitelist test and the lookup does not recurse; the whitelist tree walk is decided by facts and reachability; the JSON descriptor branch returns only validated constructions; declared field names are pairwise distinct (known finding F06b); parse_def only without a field list",
    "C07": "the typed matcher hands its whole query to the matcher of a nested record; the interpreted namespace is rebuilt before every evaluation and a generator variable is unbound when its generator ends; the expression text is compiled as given; get_field returns the plain getattr; in the string helpers every needle is lowered on every path on which nocase is on; neither engine carries per-record state to the next record (taken over from C10)",
    "C08": "arithmetic / bit operators on a missing field yield the sentinel in both engines (operator methods of the sentinel class, interpreted BinOp guard); the descriptor of a plain JSON line derives from that line (taken over from C14); the sentinel class is instantiated exactly once in the package",
    "C09": "the call predicate is followed into matcher methods and locals; a getattr name of untraceable provenance needs the dunder refusal; the matcher helper classes call no runtime value; WHITELIST is complete when the tree is built",
    "C10": "readers do not force a selector engine; the compiled engine's helper objects keep nothing between records",
    "C11": "seek only under seekable(); memoised functions do not hand out process state",
    "C12": "every element typedlist._pack writes is the packed form of a value of the element type (equal lists pack equally)",
    "C13": "both places that declare SQLite columns map the field type the same way (taken over from C18)",
    "C14": "the descriptor handler is registered exactly when descriptors are enabled (facts + reachability); generated constructor code never truth-tests a generic field value; digest setters validate before they store (taken over from C05); sub-modules read as package attributes are imported by module-level code that certainly ran",
    "C15": "RecordDescriptor equality implies equal name and field tuples (the caches are keyed by it); a grouped record's flat view reads from the owning member (known finding F15c for plain attribute access); generated constructor code never truth-tests a generic field value; _replace of a grouped record works on fresh members",
    "C16": "the split suffix never truncates the part number; the interpreted engine's namespace is rebuilt per record; the timestamp expansion reads the original record (from C15); the CSV writer starts a header per run of a record type (from C20); generated code never truth-tests a generic field value (taken over from C05); the matcher starts every record with fresh data (taken over from C10)",
    "C17": "the archiver's template is instantiated with the record's own _generated value and the record itself; close() finalises unconditionally (no state flag); transaction control only in tx_cycle (from C18); the SQLite reader lists every table the writer can create (taken over from C18); one Avro container header per file (taken over from C19)",
    "C18": "memoised functions of the SQL adapters do not read the database; 'seen before' rests on descriptor equality by definition (from C15); normalize_fieldname leaves keywords alone",
    "C19": "descriptors are never falsy (the writer tests the truth of self.desc); split rotation finalises the full part (from C17); an unmapped type raises before any field schema is appended (reachability); generated code never truth-tests a generic field value (taken over from C05); one Avro container header per file whatever the order of flush() and write()",
    "C20": "the rendered text is written as rendered; the CSV dialect is sniffed from a block read of the file; the CSV header test rests on descriptor equality by definition (from C15); a grouped record's flat view reads from the owning member; the character substitution of normalize_fieldname precedes its prefix tests",
}

NOT_YET = {}


def main():
    props = [json.loads(l) for l in open(os.path.join(HERE, "properties.jsonl"))]
    checks = []
    na = []
    for p in props:
        pid = p["id"]
        if pid in CHECKS:
            tech, decided, trusted, ref = CHECKS[pid]
            checks.append({
                "property_id": pid,
                "quick_cmd": f"./check {pid} --tier quick",
                "thorough_cmd": f"./check {pid} --tier thorough",
                "evidence_file": f"/verif/evidence/{pid}.json",
                "replay_cmd_template": f"./check {pid} --explain {{path}}",
                "engine": "sa",
                "level_claimed": {"category": "other", "text": LEVEL_TEXT + "Decided here: " + decided + (("; " + EXTRA[pid]) if pid in EXTRA else "") + ".", "design_ref": ref},
                "level_note": "Trusted base: CPython's ast parser and the documented data model; " + trusted +
                              ". A vanished anchor or an unmodelled idiom ends in ANALYSIS-ERROR (exit 2), never in a pass.",
                "technique": "static analysis: " + tech,
            })
        else:
            na.append({"property_id": pid, "reason": NOT_YET.get(pid, "check not built yet in this round (static rules designed in DESIGN.md section 3)")})
    manifest = {
        "version": 1,
        "setup_cmd": "true",
        "hooks": {
            "guard": "FLOW_RECORD_VERIF",
            "enable": "none needed: the checks read /repo's source; no instrumentation exists in the repository",
            "baseline_off_cmd": BASELINE_OFF,
            "source_commits": [],
            "add_only": True,
        },
        "engines": [{
            "name": "sa",
            "path": "/verif/sa",
            "serves_properties": sorted(CHECKS),
            "kind_free_text": "repository-specific static analyser on stdlib ast: loader/resolver/constant folder (sa/core.py), "
                              "statement CFG with dominators, branch facts and reaching definitions (sa/cfg.py), regex language "
                              "inclusion (sa/regexlang.py), provenance interpreter (sa/prov.py), one rule module per property (sa/rules)",
        }],
        "checks": checks,
        "not_applicable": na,
        "notes": "Static-analysis family only. Every check re-parses /repo on each run, prints KNOWN-FINDING lines for the "
                 "entries of /verif/known_findings.json and exits 1 with a VIOLATION line only for unlisted violations. "
                 "fix: commits in /repo are listed in known_findings.json as 'fixed'.",
    }
    with open(os.path.join(HERE, "MANIFEST.json"), "w") as f:
        json.dump(manifest, f, indent=1)
    print(f"MANIFEST.json: {len(checks)} checks, {len(na)} not_applicable")


if __name__ == "__main__":
    main()
