#!/venv/bin/python
"""Development tool: write sa/known_locals.json - per function of /repo's committed tree, the local names it binds.
A local that is NOT listed (a variable somebody introduced later) is a candidate for the normaliser's introduce-variable
undoing (sa/normalize.py); names that are listed are never touched."""
import ast
import json
import os
import subprocess

REPO = "/repo"


def main():
    commit = subprocess.check_output(["git", "-C", REPO, "rev-parse", "HEAD"], text=True).strip()
    files = subprocess.check_output(["git", "-C", REPO, "ls-files", "flow"], text=True).split()
    out = {}
    for f in sorted(files):
        if not f.endswith(".py"):
            continue
        src = subprocess.check_output(["git", "-C", REPO, "show", f"HEAD:{f}"], text=True)
        mod = f[:-3].replace("/", ".")
        if mod.endswith(".__init__"):
            mod = mod[: -len(".__init__")]
        tree = ast.parse(src)

        def visit(node, prefix):
            for ch in ast.iter_child_nodes(node):
                if isinstance(ch, (ast.FunctionDef, ast.AsyncFunctionDef)):
                    q = f"{prefix}.{ch.name}"
                    names = set()
                    for n in ast.walk(ch):
                        if isinstance(n, ast.Name) and isinstance(n.ctx, (ast.Store, ast.Del)):
                            names.add(n.id)
                        elif isinstance(n, ast.arg):
                            names.add(n.arg)
                        elif isinstance(n, ast.ExceptHandler) and n.name:
                            names.add(n.name)
                        elif isinstance(n, ast.alias):
                            names.add((n.asname or n.name).split(".")[0])
                    out[q] = sorted(names)
                    visit(ch, q)
                elif isinstance(ch, ast.ClassDef):
                    visit(ch, f"{prefix}.{ch.name}")
                else:
                    visit(ch, prefix)

        visit(tree, mod)
    with open("/verif/sa/known_locals.json", "w") as fh:
        json.dump({"_comment": "local names bound by each function of the repository revision the rules were written against; a local "
                               "name that is not listed was introduced later (sa/normalize.py undoes single-use introduce-variable edits for such names only)",
                   "repo_commit": commit, "locals": out}, fh, indent=1, sort_keys=True)
    print(len(out), "functions")


main()
