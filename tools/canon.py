#!/venv/bin/python
"""Development tool: print the canonical form (after inlining and normalisation) of functions.
usage: tools/canon.py [--patch ID] module.qualname ...      e.g. tools/canon.py --patch C01-T11 base.open_stream"""
import ast
import os
import shutil
import subprocess
import sys
import tempfile

sys.path.insert(0, "/verif")
from sa.core import Program  # noqa: E402


def main():
    args = sys.argv[1:]
    root = "/repo"
    tmp = None
    if args and args[0] == "--patch":
        pid = args[1]
        args = args[2:]
        pf = f"/verif/twins/{pid}/patch.diff" if os.path.isdir(f"/verif/twins/{pid}") else f"/verif/seeded/{pid}/patch.diff"
        tmp = tempfile.mkdtemp(prefix="vcanon.")
        shutil.copytree("/repo/flow", f"{tmp}/flow")
        subprocess.check_call(["git", "apply", pf], cwd=tmp)
        root = tmp
    try:
        prog = Program(root)
        for q in args:
            mod, _, name = q.partition(".")
            m = next((m for k, m in prog.modules.items() if k.endswith("." + mod)), None) or next((m for k, m in prog.modules.items() if k.endswith(mod)), None)
            if m is None:
                print("no module", mod, list(prog.modules)[:50])
                continue
            found = False
            for node in ast.walk(m.tree):
                if isinstance(node, (ast.FunctionDef, ast.ClassDef)):
                    qn = []
                    x = node
                    while x is not None and not isinstance(x, ast.Module):
                        if isinstance(x, (ast.FunctionDef, ast.ClassDef)):
                            qn.append(x.name)
                        x = getattr(x, "_parent", None)
                    if ".".join(reversed(qn)) == name:
                        print(f"# {q}")
                        print(ast.unparse(node))
                        found = True
            if not found:
                print("not found:", q)
    finally:
        if tmp:
            shutil.rmtree(tmp)


main()
