#!/bin/bash
# usage: tools/tw.sh <twin-or-seeded-id>...   -- run ALL checks on each listed change, print non-zero results
for id in "$@"; do
  if [ -d /verif/twins/$id ]; then pf=/verif/twins/$id/patch.diff; else pf=/verif/seeded/$id/patch.diff; fi
  d=$(mktemp -d /tmp/vtw.XXXXXX); cp -r /repo/flow "$d/"
  ( cd "$d" && git apply "$pf" ) || { echo "$id: PATCH DOES NOT APPLY"; rm -rf "$d"; continue; }
  any=0
  for p in 01 02 03 04 05 06 07 08 09 10 11 12 13 14 15 16 17 18 19 20; do
    out=$(/verif/check C$p --root "$d" --no-evidence 2>&1); rc=$?
    if [ $rc -ne 0 ]; then any=1; echo "$id -> C$p rc=$rc: $(echo "$out" | grep -E ' rule=|ANALYSIS-ERROR' | grep -v '^info' | head -2 | cut -c1-260)"; fi
  done
  [ $any -eq 0 ] && echo "$id: silent"
  rm -rf "$d"
done
