#!/venv/bin/python
"""Development tool: refresh the generated blocks of /verif/DESIGN.md (between `<!-- BEGIN GENERATED:name -->` and
`<!-- END GENERATED:name -->`) from the machinery's own data: rule texts (evidence/*.json, written by the checks), the
known-findings file, and the detection matrices of the seeded changes and twins (seeded/MATRIX.json, twins/MATRIX.json,
written by tools/seeded_matrix.py --all-props --twins)."""
import glob
import json
import os
import re

V = "/verif"


def rules_block():
    out = []
    props = {json.loads(l)["id"]: json.loads(l) for l in open(f"{V}/properties.jsonl")}
    for ev in sorted(glob.glob(f"{V}/evidence/C??.json")):
        e = json.load(open(ev))
        pid = e["property_id"]
        cov = e["coverage"]
        out.append(f"#### {pid} — {props[pid].get('title', '')}\n")
        out.append(f"*Decided / not decided (text printed in the evidence):* {cov['explanation']}\n")
        out.append("| rule | what is checked | instances on today's tree (discharged / obligations) |")
        out.append("|------|-----------------|------|")
        for rid, r in sorted(cov.get("rules", {}).items(), key=lambda kv: [int(x) if x.isdigit() else x for x in re.split(r"(\d+)", kv[0])]):
            out.append(f"| {rid} | {r.get('text', '').replace('|', '/')} | {r.get('discharged', 0)} / {r.get('obligations', 0)} |")
        fl = cov.get("floors", [])
        if fl:
            out.append("")
            out.append("Floors (instance counts below which the run is an ANALYSIS-ERROR): " + "; ".join(
                f"{f.get('what', '')} ≥ {f.get('minimum', '')} (now {f.get('count', '')})" for f in fl if isinstance(f, dict)))
        tb = cov.get("trusted_base", [])
        if tb:
            out.append("")
            out.append("Trusted base: " + " · ".join(tb))
        out.append("")
    return "\n".join(out)


def findings_block():
    d = json.load(open(f"{V}/known_findings.json"))
    out = ["| id | property | status | construct key(s) / commit | what fails (failing input) |", "|----|----------|--------|------|------|"]
    for f in d["findings"]:
        keys = ([f["key"]] if "key" in f else []) + list(f.get("keys", []))
        where = f.get("commit") if f.get("status") == "fixed" else (keys[0] + (f" (+{len(keys) - 1} more)" if len(keys) > 1 else "") if keys else "")
        what = f.get("what", "")
        if f.get("input"):
            what += f" — input: {f['input']}"
        out.append(f"| {f.get('id', '')} | {f['property']} | {f['status']} | `{where}` | {what.replace('|', '/')} |")
    return "\n".join(out)


def _round(mid):
    s = mid.split("-")[1]
    if s in ("A", "B"):
        return "1 (not blind)"
    if s.startswith("H"):
        return "hand-written"
    n = int(s[1:])
    if s.startswith("M"):
        return {1: "2 (blind)", 2: "2 (blind)", 3: "3 (blind)", 4: "3 (blind)", 5: "4 (blind)", 6: "4 (blind)", 7: "5 (blind)", 8: "5 (blind)", 9: "6 (blind)", 10: "6 (blind)", 11: "7 (blind)", 18: "8 (blind)", 19: "8 (blind)"}.get(n, "?")
    return {1: "2 (blind)", 2: "2 (blind)", 3: "2 (blind)", 4: "3 (blind)", 5: "3 (blind)", 6: "3 (blind)", 7: "4 (blind)", 8: "4 (blind)", 9: "4 (blind)", 10: "5 (blind)", 11: "5 (blind)", 12: "5 (blind)", 13: "6 (blind)", 14: "6 (blind)", 15: "6 (blind)", 16: "7 (blind)", 17: "7 (blind)", 18: "8 (blind)", 19: "8 (blind)"}.get(n, "?")


def detection_block():
    out = []
    m = json.load(open(f"{V}/seeded/MATRIX.json"))
    out.append("| change | round | what it does (from the sub-agent's note) | own check | rule that names it | other checks that also fire |")
    out.append("|--------|-------|------|------|------|------|")
    n_own = n_any = 0
    for mid in sorted(m):
        own = mid.split("-")[0]
        row = m[mid]
        meta = {}
        mp = f"{V}/seeded/{mid}/meta.json"
        if os.path.exists(mp):
            meta = json.load(open(mp))
        note = (meta.get("needs_to_manifest") or meta.get("summary") or "").strip().split("\n")
        note = " ".join(x.strip() for x in note[:3])[:170].replace("|", "/")
        r_own = row.get(own, {})
        det = r_own.get("rc") == 1
        others = sorted(k for k, v in row.items() if k != own and v.get("rc") == 1)
        errs = sorted(k for k, v in row.items() if v.get("rc") == 2)
        rule = ""
        mm = re.search(r"rule=(\S+) construct=(\S+)", r_own.get("first", ""))
        if mm:
            rule = f"{mm.group(1)} `{mm.group(2)[:60]}`"
        n_own += det
        n_any += bool(det or others)
        out.append(f"| {mid} | {_round(mid)} | {note} | {'**detected**' if det else ('analysis-error' if r_own.get('rc') == 2 else 'missed')} | {rule} | {', '.join(others)}{(' (analysis-error: ' + ', '.join(errs) + ')') if errs else ''} |")
    out.append("")
    out.append(f"Totals: {len(m)} seeded changes; {n_own} named by the check of the property they were written against; {n_any} named by at least one check.")
    t = json.load(open(f"{V}/twins/MATRIX.json"))
    noisy = {k: {p: v for p, v in row.items() if v.get("rc") != 0} for k, row in t.items()}
    noisy = {k: v for k, v in noisy.items() if v}
    out.append("")
    out.append(f"Behaviour-preserving twins: {len(t)} filed; {len(t) - len(noisy)} leave all 20 checks silent on the final machinery" +
               (": the exceptions are " + "; ".join(f"{k} → {', '.join(sorted(v))}" for k, v in sorted(noisy.items())) if noisy else "."))
    return "\n".join(out)


def main():
    p = f"{V}/DESIGN.md"
    s = open(p).read()
    for name, fn in (("rules", rules_block), ("findings", findings_block), ("detection", detection_block)):
        a, b = f"<!-- BEGIN GENERATED:{name} -->", f"<!-- END GENERATED:{name} -->"
        if a in s and b in s:
            i, j = s.index(a) + len(a), s.index(b)
            s = s[:i] + "\n" + fn() + "\n" + s[j:]
    open(p, "w").write(s)


if __name__ == "__main__":
    main()
