#!/venv/bin/python
"""DEVELOPMENT-TIME model validation for C08 (not part of any registered check): run the same cells dynamically against
the library and compare with the static table in evidence/C08.json / a fresh static run.  Usage:
    cd <root with flow/> && /venv/bin/python /verif/tools/c08_dynamic.py [root]
Prints the cells where the static model and the real behaviour disagree."""
import json
import os
import subprocess
import sys
import warnings

root = sys.argv[1] if len(sys.argv) > 1 else "/repo"
sys.path.insert(0, root)
warnings.simplefilter("ignore")
from flow.record import RecordDescriptor  # noqa: E402
from flow.record.selector import CompiledSelector, Selector  # noqa: E402

FIELDS = {
    "boolean": ("boolean", True), "posix_command": ("command", "ls -l"), "windows_command": ("command", "c:\\x.exe /a"),
    "datetime": ("datetime", "2020-01-01T00:00:00"), "filesize": ("filesize", 5), "uint16": ("uint16", 5), "uint32": ("uint32", 5),
    "float": ("float", 1.5), "string": ("string", "abc"), "stringlist": ("stringlist", ["a"]), "dictlist": ("dictlist", [{"a": 1}]),
    "unix_file_mode": ("unix_file_mode", 0o644), "varint": ("varint", 5), "net.ipv4.address": ("net.ipv4.Address", "1.2.3.4"),
    "net.ipv4.subnet": ("net.ipv4.Subnet", "10.0.0.0/8"), "net.tcp.port": ("net.tcp.Port", 80), "net.udp.port": ("net.udp.Port", 53),
    "uri": ("uri", "http://x/y"), "digest": ("digest", None), "bytes": ("bytes", b"ab"), "net.ip.ipaddress": ("net.ipaddress", "::1"),
    "net.ip.ipnetwork": ("net.ipnetwork", "10.0.0.0/8"), "posix_path": ("path", "/a/b"), "Record": ("record", "REC"),
    "typedlist": ("string[]", ["a"]),
}
LITS = {"int": "1", "float": "1.5", "bool": "True", "str": "'a'", "bytes": "b'a'", "NoneType": "None", "list": "[1]", "tuple": "(1,)"}
OPS = ["==", "!=", "<", "<=", ">", ">=", "in", "not in"]

Inner = RecordDescriptor("t/inner", [("string", "s")])
names = list(FIELDS)
D = RecordDescriptor("t/all", [(FIELDS[k][0], "f%d" % i) for i, k in enumerate(names)])
vals = {}
for i, k in enumerate(names):
    v = FIELDS[k][1]
    if v == "REC":
        v = Inner(s="x")
    vals["f%d" % i] = v
rec = D(**vals)
# windows path kind
import flow.record.fieldtypes as ft  # noqa: E402

out = {}
for kind in list(LITS) + names + ["windows_path"]:
    if kind in LITS:
        operand = LITS[kind]
        r = rec
    elif kind == "windows_path":
        D2 = RecordDescriptor("t/wp", [("path", "p")])
        r = D2(p=ft.windows_path("c:\\a"))
        operand = "r.p"
    else:
        operand = "r.f%d" % names.index(kind)
        r = rec
    for op in OPS:
        for pos in ("left", "right"):
            expr = f"r.missing {op} {operand}" if pos == "left" else f"{operand} {op} r.missing"
            for engine, cls in (("compiled", CompiledSelector), ("interpreted", Selector)):
                try:
                    v = cls(expr).match(r)
                    o = "False" if v is False else ("True" if v is True else f"Value({v!r})")
                except Exception as e:
                    o = f"raises {type(e).__name__}"
                out[f"{engine}/{op}/{pos}/{kind}"] = o

static = {}
p = subprocess.run(["/verif/check", "C08", "--root", root, "--evidence", "/tmp/c08_static.json"], capture_output=True, text=True)
static = json.load(open("/tmp/c08_static.json"))["coverage"]["table"]["outcomes"]
os.remove("/tmp/c08_static.json")
dis = 0
for cell, o in sorted(out.items()):
    s = static.get(cell)
    if s is None:
        print("cell missing in static table:", cell, o)
        dis += 1
    elif s != o:
        print(f"DISAGREE {cell}: static={s} dynamic={o}")
        dis += 1
for cell in static:
    if cell not in out:
        print("cell missing in dynamic sweep:", cell, static[cell])
        dis += 1
nonfalse = sum(1 for o in out.values() if o != "False")
print(f"{len(out)} dynamic cells, {nonfalse} non-False, {dis} disagreements with the static table")
