#!/venv/bin/python
"""Development tool: confirm sub-agent produced changes in their scratch worktrees and file the confirmed ones under
/verif/seeded/<id>/ (patch.diff, demo.py, notes.md, meta.json).  Usage: confirm_seeded.py [C01 C02 ...]"""
import json
import os
import shutil
import subprocess
import sys
import xml.etree.ElementTree as ET
from concurrent.futures import ThreadPoolExecutor

WT = "/tmp/wt"
OUT = "/verif/seeded"
BASE = json.load(open("/root/.vp/BASELINE.json"))
STABLE = set(BASE["stable_pass"])
HEAD = subprocess.run(["git", "-C", "/repo", "rev-parse", "HEAD"], capture_output=True, text=True).stdout.strip()


def sh(cmd, cwd, timeout=1200):
    return subprocess.run(cmd, cwd=cwd, shell=True, capture_output=True, text=True, timeout=timeout)


def suite(wt, tag):
    xml = f"/tmp/seed_{tag}.xml"
    sh(f"/venv/bin/python -m pytest -q -p no:cacheprovider --timeout=900 --continue-on-collection-errors --junitxml={xml} tests", wt)
    passed = set()
    try:
        for tc in ET.parse(xml).iter("testcase"):
            if not any(c.tag in ("failure", "error", "skipped") for c in tc):
                passed.add(tc.get("classname") + "::" + tc.get("name"))
    finally:
        if os.path.exists(xml):
            os.remove(xml)
    return sorted(STABLE - passed)


def one(prop):
    wt = f"{WT}/{prop}"
    res = []
    if not os.path.isdir(f"{wt}/out"):
        return [(prop, None, "no out dir")]
    sh("git checkout -q -- . && git checkout -q --detach " + HEAD, wt)
    for m in ("A", "B"):
        diff, demo, notes = f"{wt}/out/{m}.diff", f"{wt}/out/{m}_demo.py", f"{wt}/out/{m}.md"
        if not (os.path.exists(diff) and os.path.exists(demo)):
            res.append((prop, m, "missing files"))
            continue
        sh("git checkout -q -- .", wt)
        clean = sh(f"/venv/bin/python out/{m}_demo.py", wt)
        ap = sh(f"git apply out/{m}.diff", wt)
        if ap.returncode != 0:
            ap = sh(f"git apply -3 out/{m}.diff", wt)
        if ap.returncode != 0:
            res.append((prop, m, f"patch does not apply: {ap.stderr[:200]}"))
            sh("git checkout -q -- .", wt)
            continue
        broken = sh(f"/venv/bin/python out/{m}_demo.py", wt)
        lost = suite(wt, f"{prop}{m}")
        newdiff = sh("git diff", wt).stdout
        sh("git checkout -q -- .", wt)
        ok = clean.returncode == 0 and broken.returncode != 0 and not lost
        status = "confirmed" if ok else f"REJECTED clean_rc={clean.returncode} patched_rc={broken.returncode} lost_tests={lost[:3]}"
        res.append((prop, m, status))
        if ok:
            d = f"{OUT}/{prop}-{m}"
            os.makedirs(d, exist_ok=True)
            with open(f"{d}/patch.diff", "w") as f:
                f.write(newdiff)
            shutil.copy(demo, f"{d}/demo.py")
            if os.path.exists(notes):
                shutil.copy(notes, f"{d}/notes.md")
            meta = {
                "id": f"{prop}-{m}",
                "breaks_property": prop,
                "source": "independent sub-agent given only the property text and a scratch worktree",
                "needs_to_manifest": open(notes).read()[:1500] if os.path.exists(notes) else "",
                "confirmed_by": "tools/confirm_seeded.py in scratch worktree " + wt,
                "repo_commit": HEAD,
                "what_was_run": [
                    f"cd {wt} && git checkout -- . && /venv/bin/python out/{m}_demo.py  -> exit {clean.returncode}",
                    f"git apply out/{m}.diff && /venv/bin/python out/{m}_demo.py  -> exit {broken.returncode}",
                    "full baseline test command with the patch applied -> all %d stable_pass tests still pass" % len(STABLE),
                ],
                "demo_output_patched_tail": broken.stdout[-600:],
                "how_to_run_demo": "from the root of a checkout with the patch applied: /venv/bin/python demo.py (the demo inserts the cwd into sys.path)",
            }
            with open(f"{d}/meta.json", "w") as f:
                json.dump(meta, f, indent=1)
    return res


def main():
    props = sys.argv[1:] or sorted(os.listdir(WT))
    props = [p for p in props if p.startswith("C")]
    with ThreadPoolExecutor(max_workers=10) as ex:
        for res in ex.map(one, props):
            for r in res:
                print(*r)


if __name__ == "__main__":
    main()
