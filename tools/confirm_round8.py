#!/venv/bin/python
"""Development tool: confirm round-8 sub-agent output (/tmp/wt8/CNN/out): breaking change M1 -> /verif/seeded/(none);
behaviour-preserving twins T1, T2 -> /verif/twins/CNN-T18, T19 (confirmed = patch applies and the 444 baseline tests still pass;
equivalence itself is argued in notes.md and reviewed by hand when a check alarms on it)."""
import json
import os
import shutil
import subprocess
import sys
import xml.etree.ElementTree as ET
from concurrent.futures import ThreadPoolExecutor

WT = "/tmp/wt8"
RENAME = {"T1": "T18", "T2": "T19"}
BASE = json.load(open("/root/.vp/BASELINE.json"))
STABLE = set(BASE["stable_pass"])
HEAD = subprocess.run(["git", "-C", "/repo", "rev-parse", "0541292"], capture_output=True, text=True).stdout.strip()  # the commit the round-8 agents worked on


def sh(cmd, cwd, timeout=1800):
    return subprocess.run(cmd, cwd=cwd, shell=True, capture_output=True, text=True, timeout=timeout)


def suite(wt, tag):
    xml = f"/tmp/seed5_{tag}.xml"
    sh(f"/venv/bin/python -m pytest -q -p no:cacheprovider --timeout=900 --continue-on-collection-errors --junitxml={xml} tests", wt)
    passed = set()
    try:
        for tc in ET.parse(xml).iter("testcase"):
            if not any(c.tag in ("failure", "error", "skipped") for c in tc):
                passed.add(tc.get("classname") + "::" + tc.get("name"))
    finally:
        if os.path.exists(xml):
            os.remove(xml)
    return sorted(STABLE - passed)


def one(prop):
    wt = f"{WT}/{prop}"
    res = []
    if not os.path.isdir(f"{wt}/out"):
        return [(prop, None, "no out dir")]
    sh("git checkout -q -- . && git checkout -q --detach " + HEAD, wt)
    for m in ("T1", "T2"):
        diff, demo, notes = f"{wt}/out/{m}.diff", f"{wt}/out/{m}_demo.py", f"{wt}/out/{m}.md"
        if not os.path.exists(diff) or os.path.getsize(diff) == 0:
            res.append((prop, m, "missing diff"))
            continue
        is_mut = m.startswith("M")
        sh("git checkout -q -- . && git clean -fdq flow", wt)
        clean_rc = None
        if is_mut:
            if not os.path.exists(demo):
                res.append((prop, m, "missing demo"))
                continue
            clean_rc = sh(f"/venv/bin/python out/{m}_demo.py", wt).returncode
        ap = sh(f"git apply out/{m}.diff", wt)
        if ap.returncode != 0:
            res.append((prop, m, f"patch does not apply: {ap.stderr[:160]}"))
            sh("git checkout -q -- .", wt)
            continue
        broken = sh(f"/venv/bin/python out/{m}_demo.py", wt) if is_mut else None
        lost = suite(wt, f"{prop}{m}")
        sh("git add -A -N flow", wt)
        newdiff = sh("git diff", wt).stdout
        sh("git reset -q && git checkout -q -- . && git clean -fdq flow", wt)
        if is_mut:
            ok = clean_rc == 0 and broken.returncode != 0 and not lost and newdiff.strip()
            status = "confirmed" if ok else f"REJECTED clean_rc={clean_rc} patched_rc={broken.returncode} lost_tests={lost[:3]}"
            d = f"/verif/seeded/{prop}-{RENAME[m]}"
        else:
            ok = not lost and bool(newdiff.strip())
            status = "confirmed" if ok else f"REJECTED lost_tests={lost[:3]}"
            d = f"/verif/twins/{prop}-{RENAME[m]}"
        res.append((prop, m, status))
        if ok:
            os.makedirs(d, exist_ok=True)
            with open(f"{d}/patch.diff", "w") as f:
                f.write(newdiff)
            if is_mut:
                shutil.copy(demo, f"{d}/demo.py")
            if os.path.exists(notes):
                shutil.copy(notes, f"{d}/notes.md")
            meta = {
                "id": f"{prop}-{RENAME[m]}",
                "kind": "breaking change" if is_mut else "behaviour-preserving twin",
                "property": prop,
                "round": 8,
                "blind": "produced after all 20 checks existed, by a sub-agent that saw only the property text; nothing from /verif",
                "source": "independent sub-agent with its own scratch worktree",
                "needs_to_manifest" if is_mut else "equivalence_argument": open(notes).read()[:1500] if os.path.exists(notes) else "",
                "repo_commit": HEAD,
                "what_was_run": ([f"clean tree: demo -> exit {clean_rc}", f"patched: demo -> exit {broken.returncode}"] if is_mut else []) +
                                ["full baseline test command with the patch applied -> all %d stable_pass tests still pass" % len(STABLE)],
            }
            if is_mut:
                meta["demo_output_patched_tail"] = broken.stdout[-600:]
            with open(f"{d}/meta.json", "w") as f:
                json.dump(meta, f, indent=1)
    return res


def main():
    props = sys.argv[1:] or sorted(os.listdir(WT))
    with ThreadPoolExecutor(max_workers=10) as ex:
        for res in ex.map(one, [p for p in props if p.startswith("C")]):
            for r in res:
                print(*r)


if __name__ == "__main__":
    main()
