#!/venv/bin/python
"""Run the checks against every seeded change (scratch copy of /repo/flow per change, removed afterwards) and print which
are detected.  Usage: seeded_matrix.py [--all-props] [ids...]   Writes /verif/seeded/MATRIX.json"""
import json
import os
import shutil
import subprocess
import sys
import tempfile
from concurrent.futures import ThreadPoolExecutor

SEEDED = "/verif/seeded"
TWINS = "/verif/twins"
RULES = "/verif/sa/rules"


def built_props():
    return sorted(f[:-3].upper() for f in os.listdir(RULES) if f.startswith("c") and f.endswith(".py") and f[1:3].isdigit())


def _check_all(d, props):
    out = {}
    for p in props:
        r = subprocess.run(["/verif/check", p, "--root", d, "--no-evidence"], capture_output=True, text=True)
        lines = [l for l in r.stdout.splitlines() if " rule=" in l and not l.startswith("info")]
        err = [l for l in r.stdout.splitlines() if l.startswith("ANALYSIS-ERROR")]
        out[p] = (r.returncode, lines, err)
    return out


def _key(line):
    import re
    m = re.search(r"rule=(\S+) construct=(.*?) ::", line)
    # a refactoring may rename the function a construct is named after: the rule and the last component identify the finding
    return (m.group(1), m.group(2).split(":")[-1]) if m else line


def run_one(sid, props, base=SEEDED):
    """Apply the change to a scratch copy of /repo/flow and run the checks. A change that no longer applies (a later fix: commit touched the
    same lines) is evaluated on the newest ancestor commit it applies to; only what it ADDS to that tree's own report counts."""
    d = tempfile.mkdtemp(prefix="vseed.", dir="/tmp")
    patch = os.path.join(base, sid, "patch.diff")
    try:
        shutil.copytree("/repo/flow", os.path.join(d, "flow"))
        pinned = None
        mp = os.path.join(base, sid, "meta.json")
        if os.path.exists(mp):
            pinned = json.load(open(mp)).get("evaluate_on_ancestor")
        ap = subprocess.run(["git", "apply", patch], cwd=d, capture_output=True, text=True)
        if ap.returncode == 0 and not pinned:
            res = {}
            for p, (rc, lines, err) in _check_all(d, props).items():
                res[p] = {"rc": rc, "first": (lines or err or [""])[0][:240]}
            return sid, res
        commits = subprocess.run(["git", "-C", "/repo", "log", "--format=%H", "-n", "40"], capture_output=True, text=True).stdout.split()[1:]
        if pinned:
            commits = [c for c in commits if c.startswith(pinned)] or commits
        for c in commits:
            shutil.rmtree(os.path.join(d, "flow"), ignore_errors=True)
            if subprocess.run(f"git -C /repo archive {c} flow | tar -x -C {d}", shell=True).returncode != 0:
                continue
            if subprocess.run(["git", "apply", "--check", patch], cwd=d, capture_output=True).returncode != 0:
                continue
            before = _check_all(d, props)
            subprocess.run(["git", "apply", patch], cwd=d, capture_output=True)
            after = _check_all(d, props)
            res = {}
            for p in props:
                brc, bl, be = before[p]
                arc, al, ae = after[p]
                bk = {_key(l) for l in bl}
                added = [l for l in al if _key(l) not in bk]
                if arc == 2 and brc != 2:
                    res[p] = {"rc": 2, "first": (ae or [""])[0][:200] + f" [on ancestor {c[:7]}]"}
                elif added:
                    res[p] = {"rc": 1, "first": added[0][:200] + f" [on ancestor {c[:7]}]"}
                else:
                    res[p] = {"rc": 0, "first": ""}
            return sid, res
        return sid, {"error": "patch applies neither to /repo nor to one of its last 40 ancestors: " + ap.stderr[:120]}
    finally:
        shutil.rmtree(d, ignore_errors=True)


def main():
    args = [a for a in sys.argv[1:] if not a.startswith("--")]
    allp = "--all-props" in sys.argv
    ids = [a for a in args if os.path.isdir(os.path.join(SEEDED, a))] if args else sorted(x for x in os.listdir(SEEDED) if os.path.isdir(os.path.join(SEEDED, x)))
    props = built_props()
    jobs = []
    for sid in ids:
        own = sid.split("-")[0]
        ps = props if allp else [p for p in props if p == own]
        jobs.append((sid, ps))
    out = {}
    with ThreadPoolExecutor(max_workers=16) as ex:
        for sid, res in ex.map(lambda j: run_one(*j), jobs):
            out[sid] = res
            own = sid.split("-")[0]
            if "error" in res:
                print(f"{sid}: {res['error']}")
                continue
            if own not in res:
                print(f"{sid}: (no check for {own} yet)")
                continue
            r = res[own]
            status = {0: "MISSED", 1: "DETECTED", 2: "ANALYSIS-ERROR"}.get(r["rc"], str(r["rc"]))
            others = [p for p, v in res.items() if p != own and v["rc"] != 0]
            print(f"{sid}: {status} {r['first'][:200]}" + (f"  [also: {others}]" if others else ""))
    if not args:
        with open(os.path.join(SEEDED, "MATRIX.json"), "w") as f:
            json.dump(out, f, indent=1, sort_keys=True)
    if "--twins" in sys.argv and os.path.isdir(TWINS):
        tids = sorted(x for x in os.listdir(TWINS) if os.path.isdir(os.path.join(TWINS, x)) and (not args or x in args))
        tout = {}
        with ThreadPoolExecutor(max_workers=16) as ex:
            for sid, res in ex.map(lambda t: run_one(t, props, TWINS), tids):
                tout[sid] = res
                if "error" in res:
                    print(f"twin {sid}: {res['error']}")
                    continue
                alarms = {p: v for p, v in res.items() if v["rc"] != 0}
                if alarms:
                    for p, v in alarms.items():
                        print(f"twin {sid}: {'FALSE-ALARM' if v['rc'] == 1 else 'ANALYSIS-ERROR'} by {p}: {v['first'][:200]}")
                else:
                    print(f"twin {sid}: silent ({len(res)} checks)")
        with open(os.path.join(TWINS, "MATRIX.json"), "w") as f:
            json.dump(tout, f, indent=1, sort_keys=True)


if __name__ == "__main__":
    main()
