#!/bin/bash
# usage: tools/try_patch.sh <patch.diff> <PROP> [PROP...]   -- apply the patch to a scratch copy of /repo/flow and run checks on it
set -u
patch="$1"; shift
d=$(mktemp -d /tmp/vscratch.XXXXXX)
cp -r /repo/flow "$d/"
( cd "$d" && git apply "$patch" ) || { echo "PATCH DOES NOT APPLY"; rm -rf "$d"; exit 3; }
rc=0
for p in "$@"; do
  out=$(/verif/check "$p" --root "$d" --no-evidence 2>&1 | grep -v conda)
  echo "$out" | grep -E "rule=|ANALYSIS-ERROR|VIOLATION|tier=" | grep -v "^info" | cut -c1-330 | tail -8
done
rm -rf "$d"
