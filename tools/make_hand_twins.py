#!/venv/bin/python
"""Development tool: hand-written behaviour-preserving twins (the 'benign twin' column of DESIGN.md section 5).
Each is a textual edit applied in a scratch worktree of /repo, confirmed by the 444 baseline tests, and saved as
/verif/twins/<ID>/patch.diff.  Usage: make_hand_twins.py [ids...]"""
import json
import os
import subprocess
import sys
import xml.etree.ElementTree as ET

BASE = json.load(open("/root/.vp/BASELINE.json"))
STABLE = set(BASE["stable_pass"])
WT = "/tmp/wt_hand"

TWINS = {
    "C02-H1": ("constants written in decimal and renamed on use", [("flow/record/packer.py", "RECORD_PACK_EXT_TYPE = 0xE", "RECORD_PACK_EXT_TYPE = 14"),
                                                                  ("flow/record/packer.py", "RECORD_PACK_TYPE_DATETIME = 0x10", "RECORD_PACK_TYPE_DATETIME = 16"),
                                                                  ("flow/record/packer.py", "RECORD_PACK_TYPE_VARINT = 0x11", "RECORD_PACK_TYPE_VARINT = 17")]),
    "C04-H1": ("EOFError handler returns instead of pass", [("flow/record/stream.py", "        except EOFError:\n            pass\n", "        except EOFError:\n            return\n")]),
    "C06-H1": ("fullmatch without anchors", [("flow/record/base.py", 'RE_VALID_FIELD_NAME = re.compile(r"^_?[a-zA-Z][a-zA-Z0-9_]*\\Z")', 'RE_VALID_FIELD_NAME = re.compile(r"_?[a-zA-Z][a-zA-Z0-9_]*")'),
                                             ("flow/record/base.py", "    if not RE_VALID_FIELD_NAME.match(name):", "    if not RE_VALID_FIELD_NAME.fullmatch(name):")]),
    "C08-H1": ("sentinel comparison methods share one helper", [("flow/record/selector.py",
               "    def __eq__(a, b):\n        return False\n\n    def __ne__(a, b):\n        return False\n\n    def __lt__(a, b):\n        return False\n\n    def __gt__(a, b):\n        return False\n\n    def __le__(a, b):\n        return False\n\n    def __ge__(a, b):\n        return False\n",
               "    def _never(a, b):\n        return False\n\n    __eq__ = __ne__ = __lt__ = __gt__ = __le__ = __ge__ = _never\n")]),
    "C10-H1": ("selector guard written with continue", [("flow/record/adapter/jsonfile.py",
               "            if isinstance(obj, record.Record):\n                if not self.selector or self.selector.match(obj):\n                    yield obj\n",
               "            if isinstance(obj, record.Record):\n                if self.selector and not self.selector.match(obj):\n                    continue\n                yield obj\n")]),
    "C15-H1": ("reversed() instead of [::-1]", [("flow/record/base.py", "        kv_maps = kv_maps[::-1]\n", "        kv_maps = tuple(reversed(kv_maps))\n")]),
    "C18-H1": ("close commits through tx_cycle directly", [("flow/record/adapter/sqlite.py", "        if self.con:\n            self.flush()\n            self.con.close()\n", "        if self.con:\n            self.tx_cycle()\n            self.con.close()\n")]),
    "C20-H1": ("errors= through a module constant", [("flow/record/adapter/csvfile.py", '__usage__ = """', 'ENCODING_ERRORS = "surrogateescape"\n\n__usage__ = """'),
                                                     ("flow/record/adapter/csvfile.py", 'errors="surrogateescape")', "errors=ENCODING_ERRORS)")]),
    "C05-H1": ("uint16 guard as chained comparison", [("flow/record/fieldtypes/__init__.py", "        if value < 0 or value > 0xFFFF:\n", "        if not (0 <= value <= 65535):\n")]),
    "C05-H2": ("typedlist._convert as explicit loop", [("flow/record/fieldtypes/__init__.py",
               "        return [self.__type__(f) if not isinstance(f, self.__type__) else f for f in values]\n",
               "        converted = []\n        for f in values:\n            if isinstance(f, self.__type__):\n                converted.append(f)\n            else:\n                converted.append(self.__type__(f))\n        return converted\n")]),
    "C02-H2": ("hash input built with an explicit loop", [("flow/record/base.py",
               '        data = name + "".join(f"{n}{t}" for t, n in fields)\n',
               '        data = name\n        for field_type, field_name in fields:\n            data += field_name + field_type\n')]),
    "C07-H1": ("membership comparators as named functions", [("flow/record/selector.py",
               "    ast.In: lambda left, right: (\n        False if (isinstance(left, NoneObject) or isinstance(right, NoneObject)) else operator.contains(right, left)\n    ),\n",
               "    ast.In: lambda item, container: (\n        False if (isinstance(item, NoneObject) or isinstance(container, NoneObject)) else item in container\n    ),\n")]),
    "C12-H1": ("eq/hash share a helper projection", [("flow/record/base.py",
               "        return self._pack(excluded_fields=IGNORE_FIELDS_FOR_COMPARISON) == other._pack(\n            excluded_fields=IGNORE_FIELDS_FOR_COMPARISON\n        )\n",
               "        ignored = IGNORE_FIELDS_FOR_COMPARISON\n        return self._pack(excluded_fields=ignored) == other._pack(excluded_fields=ignored)\n")]),
    "C03-H1": ("registry created with dict()", [("flow/record/packer.py", "        self.descriptors = {}\n", "        self.descriptors = dict()\n")]),
    "C17-H1": ("SplitWriter limit test with a local", [("flow/record/adapter/split.py", "        self.written += 1\n        if self.written >= self.count:\n", "        self.written += 1\n        limit_reached = self.written >= self.count\n        if limit_reached:\n")]),
    "C16-H1": ("record_stream handler without continue", [("flow/record/stream.py", '            log.warning("Exception in %r for %r: %s -- skipping to next reader", reader, src, aRepr.repr(e))\n            continue\n',
                                                          '            log.warning("Exception in %r for %r: %s -- skipping to next reader", reader, src, aRepr.repr(e))\n')]),
    "C13-H1": ("isoformat with explicit separator", [("flow/record/jsonpacker.py", "            serial = obj.isoformat()\n", '            serial = obj.isoformat(sep="T")\n')]),
    "C14-H1": ("marker condition hoisted into a local", [("flow/record/jsonpacker.py", "            if self.pack_descriptors:\n                serial[\"_type\"]", "            with_markers = self.pack_descriptors\n            if with_markers:\n                serial[\"_type\"]")]),
    "C19-H1": ("unmapped-type guard as membership test", [("flow/record/adapter/avro.py", "            avro_type = AVRO_TYPE_MAP.get(field_type)\n            if not avro_type:\n                raise Exception(\"Unsupported Avro type: {}\".format(field_type))\n",
                                                           "            if field_type not in AVRO_TYPE_MAP:\n                raise Exception(\"Unsupported Avro type: {}\".format(field_type))\n            avro_type = AVRO_TYPE_MAP[field_type]\n")]),
    "C11-H1": ("magic comparison with startswith", [("flow/record/base.py", "    if peek_data[:2] == GZIP_MAGIC:\n", "    if peek_data.startswith(GZIP_MAGIC):\n")]),
    "C09-H1": ("whitelist turned into a name-keyed dict", [("flow/record/selector.py", "        self.data.update({func.__name__: func for func in FUNCTION_WHITELIST})\n",
                                                            "        for func in FUNCTION_WHITELIST:\n            self.data[func.__name__] = func\n")]),
    "C01-H1": ("path._unpack with indexing", [("flow/record/fieldtypes/__init__.py", "        path_, path_type = data\n        if path_type == TYPE_POSIX:", "        path_ = data[0]\n        path_type = data[1]\n        if path_type == TYPE_POSIX:")]),
}


def sh(cmd, cwd):
    return subprocess.run(cmd, cwd=cwd, shell=True, capture_output=True, text=True)


def main():
    ids = sys.argv[1:] or sorted(TWINS)
    if not os.path.isdir(WT):
        sh(f"git -C /repo worktree add -q --detach {WT} HEAD", "/")
    head = sh("git -C /repo rev-parse HEAD", "/").stdout.strip()
    sh(f"git checkout -q -- . && git checkout -q --detach {head}", WT)
    for tid in ids:
        desc, edits = TWINS[tid]
        sh("git checkout -q -- .", WT)
        ok = True
        for rel, old, new in edits:
            p = os.path.join(WT, rel)
            s = open(p).read()
            if old not in s:
                print(tid, "ANCHOR NOT FOUND in", rel, repr(old[:50]))
                ok = False
                break
            open(p, "w").write(s.replace(old, new, 1))
        if not ok:
            continue
        xml = f"/tmp/hand_{tid}.xml"
        sh(f"/venv/bin/python -m pytest -q -p no:cacheprovider --timeout=900 --continue-on-collection-errors --junitxml={xml} tests", WT)
        passed = set()
        for tc in ET.parse(xml).iter("testcase"):
            if not any(c.tag in ("failure", "error", "skipped") for c in tc):
                passed.add(tc.get("classname") + "::" + tc.get("name"))
        os.remove(xml)
        lost = sorted(STABLE - passed)
        diff = sh("git diff", WT).stdout
        sh("git checkout -q -- .", WT)
        if lost:
            print(tid, "REJECTED, tests lost:", lost[:3])
            continue
        d = f"/verif/twins/{tid}"
        os.makedirs(d, exist_ok=True)
        open(f"{d}/patch.diff", "w").write(diff)
        json.dump({"id": tid, "kind": "behaviour-preserving twin (hand-written)", "property": tid.split("-")[0], "description": desc, "repo_commit": head,
                   "what_was_run": ["full baseline test command with the patch applied -> all stable_pass tests still pass"]}, open(f"{d}/meta.json", "w"), indent=1)
        print(tid, "confirmed:", desc)
    sh(f"git -C /repo worktree remove --force {WT}", "/")


if __name__ == "__main__":
    main()
